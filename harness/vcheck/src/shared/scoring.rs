//! Shared by C09 (pruned top-k == exhaustive top-k) and C10 (hit order + scores):
//! corpus/index builder with an independent per-segment model, scored-query generator,
//! an independent BM25 + score-tree evaluator working from the request JSON and the
//! ORIGINAL documents, and a tolerance-aware top-k comparator.
#![allow(dead_code)]
use searchlite_core::analysis::analyzer::Analyzer;
use searchlite_core::api::{Index, IndexReader};
use serde_json::{json, Map, Value};
use std::collections::{BTreeMap, HashMap, HashSet};
use std::path::Path;
use vcore::{idx, Rng};

// ---------------------------------------------------------------------------------------------
// corpus
// ---------------------------------------------------------------------------------------------

pub const TEXT_FIELDS: [&str; 2] = ["title", "body"];
/// lower-case only: keyword equality is exercised by C07/C08, not here
pub const TAG_VALUES: &[&str] = &["red", "green", "blue", "cyan", "amber", "x", "yz", "alpha", "beta", "zeta"];
pub const CAT_VALUES: &[&str] = &["a", "b", "c", "d"];
/// sort-only keyword: mixed case / digits / non-ASCII so that byte order differs from other orders
pub const SKEY_VALUES: &[&str] = &["Apple", "apple", "Zed", "zed", "été", "b", "B", "10", "9", "a b", "zz", "Ünï"];

#[derive(Clone, Debug)]
pub enum Op {
  Add(Value),
  Delete(String),
}

#[derive(Clone, Debug)]
pub struct CorpusCfg {
  pub n_docs: usize,
  pub vocab: Vec<String>,
  pub max_commits: usize,
  pub dirty: bool,
  pub body_analyzer: String,
  pub title_missing_p: f64,
  pub title_max: usize,
  pub body_max: usize,
  pub multi_text_p: f64,
}

#[derive(Clone, Debug)]
pub struct Corpus {
  pub schema: Value,
  pub batches: Vec<Vec<Op>>,
  pub k1: f32,
  pub b: f32,
  pub positions: bool,
  pub in_memory: bool,
  pub dirty: bool,
}

pub fn schema_json(body_analyzer: &str) -> Value {
  json!({
    "doc_id_field": "_id",
    "analyzers": [
      {"name": "en", "tokenizer": "default", "filters": [{"stopwords": "en"}, {"stemmer": "english"}]}
    ],
    "text_fields": [
      {"name": "title", "analyzer": "default", "stored": false, "indexed": true, "nullable": true},
      {"name": "body", "analyzer": body_analyzer, "stored": false, "indexed": true, "nullable": true}
    ],
    "keyword_fields": [
      {"name": "tag", "stored": false, "indexed": true, "fast": true, "nullable": true},
      {"name": "cat", "stored": false, "indexed": true, "fast": true, "nullable": true},
      {"name": "skey", "stored": false, "indexed": false, "fast": true, "nullable": true}
    ],
    "numeric_fields": [
      {"name": "n", "i64": true, "fast": true, "stored": false, "nullable": true},
      {"name": "x", "i64": false, "fast": true, "stored": false, "nullable": true},
      {"name": "pop", "i64": false, "fast": true, "stored": false, "nullable": true},
      {"name": "age", "i64": true, "fast": true, "stored": false, "nullable": true},
      {"name": "opt", "i64": false, "fast": true, "stored": false, "nullable": true}
    ],
    "nested_fields": []
  })
}

fn words(rng: &mut Rng, vocab: &[String], min: usize, max: usize) -> String {
  let n = rng.urange(min, max);
  let mut v = Vec::with_capacity(n);
  for _ in 0..n {
    v.push(vocab[rng.zipf(vocab.len())].clone());
  }
  let seps = [" ", " ", " ", ", ", ". ", "  "];
  let mut s = String::new();
  for (i, w) in v.iter().enumerate() {
    if i > 0 {
      s.push_str(seps[rng.usize(seps.len())]);
    }
    s.push_str(w);
  }
  s
}

pub fn gen_doc(rng: &mut Rng, id: &str, cfg: &CorpusCfg) -> Value {
  let mut m = Map::new();
  m.insert("_id".into(), json!(id));
  if !rng.chance(cfg.title_missing_p) {
    if rng.chance(cfg.multi_text_p) {
      m.insert("title".into(), json!([words(rng, &cfg.vocab, 1, cfg.title_max), words(rng, &cfg.vocab, 1, 2)]));
    } else {
      m.insert("title".into(), json!(words(rng, &cfg.vocab, 1, cfg.title_max)));
    }
  }
  if rng.chance(cfg.multi_text_p) {
    m.insert("body".into(), json!([words(rng, &cfg.vocab, 1, cfg.body_max), words(rng, &cfg.vocab, 1, cfg.body_max)]));
  } else {
    m.insert("body".into(), json!(words(rng, &cfg.vocab, 1, cfg.body_max)));
  }
  match rng.below(10) {
    0 | 1 => {}
    2..=6 => {
      m.insert("tag".into(), json!(rng.pick(TAG_VALUES)));
    }
    _ => {
      let k = rng.urange(2, 3);
      let v: Vec<&str> = (0..k).map(|_| *rng.pick(TAG_VALUES)).collect();
      m.insert("tag".into(), json!(v));
    }
  }
  m.insert("cat".into(), json!(rng.pick(CAT_VALUES)));
  match rng.below(20) {
    0..=3 => {}
    4 => {
      m.insert("skey".into(), Value::Null);
    }
    5..=14 => {
      m.insert("skey".into(), json!(rng.pick(SKEY_VALUES)));
    }
    _ => {
      let k = rng.urange(2, 3);
      let v: Vec<&str> = (0..k).map(|_| *rng.pick(SKEY_VALUES)).collect();
      m.insert("skey".into(), json!(v));
    }
  }
  match rng.below(20) {
    0..=3 => {}
    4 => {
      m.insert("n".into(), json!([]));
    }
    5..=14 => {
      m.insert("n".into(), json!(rng.range(-5, 20)));
    }
    _ => {
      let k = rng.urange(2, 3);
      let v: Vec<i64> = (0..k).map(|_| rng.range(-5, 20)).collect();
      m.insert("n".into(), json!(v));
    }
  }
  let fx = |rng: &mut Rng| -> f64 {
    let v = rng.range(-40, 80);
    if v == 0 {
      0.0
    } else {
      v as f64 / 8.0
    }
  };
  match rng.below(20) {
    0..=3 => {}
    4 => {
      m.insert("x".into(), Value::Null);
    }
    5..=14 => {
      m.insert("x".into(), json!(fx(rng)));
    }
    _ => {
      let k = rng.urange(2, 3);
      let v: Vec<f64> = (0..k).map(|_| fx(rng)).collect();
      m.insert("x".into(), json!(v));
    }
  }
  m.insert("pop".into(), json!(rng.range(0, 400) as f64 / 8.0));
  m.insert("age".into(), json!(rng.range(0, 100)));
  if rng.chance(0.6) {
    m.insert("opt".into(), json!(rng.range(8, 160) as f64 / 8.0));
  }
  Value::Object(m)
}

pub fn doc_id_for(rng: &mut Rng, i: usize) -> String {
  // byte order of ids differs from insertion order (segments store a commit's docs in id order)
  let p = ["d", "a", "z", "D", "m"];
  format!("{}{}", p[rng.usize(p.len())], i)
}

pub fn gen_corpus(rng: &mut Rng, cfg: &CorpusCfg) -> Corpus {
  let layout = vcore::gen::layout(rng, cfg.n_docs, cfg.max_commits);
  let mut batches: Vec<Vec<Op>> = Vec::new();
  let mut ids: Vec<String> = Vec::new();
  let mut i = 0usize;
  for n in layout.iter() {
    let mut batch = Vec::new();
    if cfg.dirty && !ids.is_empty() {
      // deletions / upserts of earlier documents
      let k = rng.urange(0, 3.min(ids.len()));
      for _ in 0..k {
        let victim = ids[rng.usize(ids.len())].clone();
        if rng.chance(0.5) {
          batch.push(Op::Delete(victim));
        } else {
          batch.push(Op::Add(gen_doc(rng, &victim, cfg)));
        }
      }
    }
    for _ in 0..*n {
      let id = doc_id_for(rng, i);
      i += 1;
      batch.push(Op::Add(gen_doc(rng, &id, cfg)));
      if cfg.dirty && rng.chance(0.05) {
        // same id twice in one commit: last one wins
        batch.push(Op::Add(gen_doc(rng, &id, cfg)));
      }
      ids.push(id);
    }
    if cfg.dirty {
      rng.shuffle(&mut batch);
    }
    batches.push(batch);
  }
  let k1 = (rng.range(3, 20) as f32) / 10.0;
  let b = (rng.range(0, 10) as f32) / 10.0;
  Corpus {
    schema: schema_json(&cfg.body_analyzer),
    batches,
    k1,
    b,
    positions: rng.chance(0.7),
    in_memory: true,
    dirty: cfg.dirty,
  }
}

/// Length-skewed variant of a corpus: every ordinary document gets a long body and every
/// commit ends (ids starting with `~` sort last, i.e. highest doc ordinals) with a few very
/// short documents made only of the most frequent words and without a title. A pruning bound
/// that under-estimates what a short document can score (wrong minimum length, average instead
/// of minimum, last posting left out ...) shows up on these: the heap fills with mediocre long
/// documents first and the best hits come last.
pub fn add_length_skew(rng: &mut Rng, corpus: &mut Corpus, vocab: &[String]) {
  let mut serial = 0usize;
  for batch in corpus.batches.iter_mut() {
    for op in batch.iter_mut() {
      if let Op::Add(doc) = op {
        if let Some(body) = doc.get("body").and_then(|b| b.as_str()).map(|s| s.to_string()) {
          let n = body.split_whitespace().count();
          if n < 10 {
            let extra = words(rng, vocab, 10 - n, 16 - n.min(9));
            doc["body"] = json!(format!("{body} {extra}"));
          }
        }
      }
    }
    let k = rng.urange(1, 3);
    let template = batch.iter().find_map(|op| if let Op::Add(d) = op { Some(d.clone()) } else { None });
    for _ in 0..k {
      let Some(mut d) = template.clone() else { break };
      serial += 1;
      d["_id"] = json!(format!("~~s{serial}"));
      let w1 = vocab[rng.usize(vocab.len().min(4))].clone();
      d["body"] = if rng.chance(0.5) { json!(w1) } else { json!(format!("{} {}", w1, vocab[rng.usize(vocab.len().min(4))])) };
      if let Some(o) = d.as_object_mut() {
        o.remove("title");
      }
      batch.push(Op::Add(d));
    }
  }
}

// ---------------------------------------------------------------------------------------------
// model of the built index
// ---------------------------------------------------------------------------------------------

#[derive(Clone, Debug, Default)]
pub struct DocM {
  pub id: String,
  pub src: Value,
  pub live: bool,
  /// "field:token" -> term frequency (text: analysed tokens; keyword: distinct lower-cased values, tf 1)
  pub tf: HashMap<String, u32>,
  /// text field -> number of tokens
  pub dl: HashMap<String, u32>,
}

#[derive(Clone, Debug, Default)]
pub struct SegM {
  pub docs: Vec<DocM>,
  pub df: HashMap<String, u32>,
  pub sum_len: HashMap<String, u64>,
  /// sorted distinct "field:token" keys (for prefix expansion)
  pub dict: Vec<String>,
}

pub struct Analyzers {
  pub index: HashMap<String, Analyzer>,
  pub search: HashMap<String, Analyzer>,
}

pub struct Built {
  pub index: Index,
  pub reader: IndexReader,
  pub segs: Vec<SegM>,
  pub clean: bool,
  pub k1: f32,
  pub b: f32,
  pub an: Analyzers,
  /// live id -> (segment ordinal, doc ordinal)
  pub loc: HashMap<String, (usize, usize)>,
  pub total_docs: usize,
}

fn strings_of(v: Option<&Value>) -> Vec<String> {
  match v {
    Some(Value::String(s)) => vec![s.clone()],
    Some(Value::Array(a)) => a.iter().filter_map(|x| x.as_str().map(|s| s.to_string())).collect(),
    _ => Vec::new(),
  }
}

pub fn i64s_of(v: Option<&Value>) -> Vec<i64> {
  match v {
    Some(Value::Number(n)) => n.as_i64().into_iter().collect(),
    Some(Value::Array(a)) => a.iter().filter_map(|x| x.as_i64()).collect(),
    _ => Vec::new(),
  }
}

pub fn f64s_of(v: Option<&Value>) -> Vec<f64> {
  match v {
    Some(Value::Number(n)) => n.as_f64().into_iter().collect(),
    Some(Value::Array(a)) => a.iter().filter_map(|x| x.as_f64()).collect(),
    _ => Vec::new(),
  }
}

pub fn strs_of(v: Option<&Value>) -> Vec<String> {
  strings_of(v)
}

fn model_doc(id: &str, src: &Value, an: &Analyzers) -> DocM {
  let mut d = DocM { id: id.to_string(), src: src.clone(), live: true, ..Default::default() };
  for f in TEXT_FIELDS.iter() {
    let vals = strings_of(src.get(*f));
    if vals.is_empty() {
      continue;
    }
    let a = an.index.get(*f).expect("analyzer");
    let mut len = 0u32;
    for v in vals.iter() {
      for t in a.analyze(v) {
        len += 1;
        *d.tf.entry(format!("{f}:{}", t.text)).or_insert(0) += 1;
      }
    }
    d.dl.insert(f.to_string(), len);
  }
  for f in ["tag", "cat"] {
    let mut seen = HashSet::new();
    for v in strings_of(src.get(f)) {
      let lower = v.to_ascii_lowercase();
      if seen.insert(lower.clone()) {
        d.tf.insert(format!("{f}:{lower}"), 1);
      }
    }
  }
  d
}

/// Build the index from the corpus and derive the per-segment model. Documents are placed by
/// reading the public `reader.segments[s].doc_id(n)` mapping (ordinal -> external id) only.
pub fn build(path: &Path, c: &Corpus) -> Result<Built, String> {
  let _ = std::fs::remove_dir_all(path);
  std::fs::create_dir_all(path).map_err(|e| e.to_string())?;
  let sch = idx::schema(&c.schema).map_err(|e| e.to_string())?;
  let analyzers = sch.build_analyzers().map_err(|e| e.to_string())?;
  let mut an = Analyzers { index: HashMap::new(), search: HashMap::new() };
  for f in TEXT_FIELDS.iter() {
    an.index.insert(f.to_string(), analyzers.index_analyzer(f).ok_or("no index analyzer")?.clone());
    an.search.insert(f.to_string(), analyzers.search_analyzer(f).ok_or("no search analyzer")?.clone());
  }
  let opts = idx::opts_full(path, c.in_memory, c.positions, c.k1, c.b);
  let index = Index::create(path, sch, opts).map_err(|e| format!("create: {e:#}"))?;
  // expected segment contents from the op batches
  let mut expected: Vec<BTreeMap<String, Value>> = Vec::new();
  {
    let mut w = index.writer().map_err(|e| format!("writer: {e:#}"))?;
    for batch in c.batches.iter() {
      let mut fin: BTreeMap<String, Value> = BTreeMap::new();
      for op in batch.iter() {
        match op {
          Op::Add(d) => {
            let id = d.get("_id").and_then(|v| v.as_str()).unwrap_or("").to_string();
            w.add_document(&idx::doc(d)).map_err(|e| format!("add: {e:#}"))?;
            fin.insert(id, d.clone());
          }
          Op::Delete(id) => {
            w.delete_document(id).map_err(|e| format!("delete: {e:#}"))?;
            fin.remove(id);
          }
        }
      }
      if !batch.is_empty() {
        w.commit().map_err(|e| format!("commit: {e:#}"))?;
      }
      // a later batch kills earlier versions
      for prev in expected.iter_mut() {
        for op in batch.iter() {
          let id = match op {
            Op::Add(d) => d.get("_id").and_then(|v| v.as_str()).unwrap_or("").to_string(),
            Op::Delete(id) => id.clone(),
          };
          if let Some(v) = prev.get_mut(&id) {
            *v = Value::Null; // tombstone marker
          }
        }
      }
      if !fin.is_empty() {
        expected.push(fin);
      }
    }
  }
  let reader = index.reader().map_err(|e| format!("reader: {e:#}"))?;
  if reader.segments.len() != expected.len() {
    return Err(format!("segment count {} != expected {}", reader.segments.len(), expected.len()));
  }
  let mut segs = Vec::new();
  let mut loc = HashMap::new();
  let mut clean = true;
  let mut total_docs = 0;
  for (s, exp) in expected.iter().enumerate() {
    let mut seg = SegM::default();
    let mut n = 0u32;
    while let Some(id) = reader.segments[s].doc_id(n) {
      let Some(src) = exp.get(id) else {
        return Err(format!("segment {s} holds unexpected id {id}"));
      };
      let mut d;
      if src.is_null() {
        d = DocM { id: id.to_string(), live: false, ..Default::default() };
        clean = false;
      } else {
        d = model_doc(id, src, &an);
        loc.insert(id.to_string(), (s, n as usize));
      }
      d.id = id.to_string();
      seg.docs.push(d);
      n += 1;
    }
    if seg.docs.len() != exp.len() {
      return Err(format!("segment {s} has {} docs, expected {}", seg.docs.len(), exp.len()));
    }
    total_docs += seg.docs.len();
    for d in seg.docs.iter() {
      for (k, _) in d.tf.iter() {
        *seg.df.entry(k.clone()).or_insert(0) += 1;
      }
      for (f, l) in d.dl.iter() {
        *seg.sum_len.entry(f.clone()).or_insert(0) += *l as u64;
      }
    }
    let mut dict: Vec<String> = seg.df.keys().cloned().collect();
    dict.sort();
    seg.dict = dict;
    segs.push(seg);
  }
  Ok(Built { index, reader, segs, clean, k1: c.k1, b: c.b, an, loc, total_docs })
}

// ---------------------------------------------------------------------------------------------
// oracle: filters, functions, scripts
// ---------------------------------------------------------------------------------------------

/// Filter subset used by this module (exact semantics documented in the README filter section):
/// KeywordEq / KeywordIn (any value equal), I64Range / F64Range (any value in [min,max]), And / Or / Not.
pub fn filter_pass(f: &Value, src: &Value) -> Option<bool> {
  let o = f.as_object()?;
  let (k, v) = o.iter().next()?;
  match k.as_str() {
    "KeywordEq" => {
      let field = v.get("field")?.as_str()?;
      let val = v.get("value")?.as_str()?;
      Some(strings_of(src.get(field)).iter().any(|s| s == val))
    }
    "KeywordIn" => {
      let field = v.get("field")?.as_str()?;
      let vals: Vec<&str> = v.get("values")?.as_array()?.iter().filter_map(|x| x.as_str()).collect();
      Some(strings_of(src.get(field)).iter().any(|s| vals.contains(&s.as_str())))
    }
    "I64Range" => {
      let field = v.get("field")?.as_str()?;
      let (min, max) = (v.get("min")?.as_i64()?, v.get("max")?.as_i64()?);
      Some(i64s_of(src.get(field)).iter().any(|x| *x >= min && *x <= max))
    }
    "F64Range" => {
      let field = v.get("field")?.as_str()?;
      let (min, max) = (v.get("min")?.as_f64()?, v.get("max")?.as_f64()?);
      Some(f64s_of(src.get(field)).iter().any(|x| *x >= min && *x <= max))
    }
    "And" => {
      let mut all = true;
      for c in v.as_array()? {
        all &= filter_pass(c, src)?;
      }
      Some(all)
    }
    "Or" => {
      let mut any = false;
      for c in v.as_array()? {
        any |= filter_pass(c, src)?;
      }
      Some(any)
    }
    "Not" => Some(!filter_pass(v, src)?),
    _ => None,
  }
}

fn num_field(src: &Value, field: &str) -> Option<f64> {
  f64s_of(src.get(field)).first().copied()
}

fn modifier(name: &str, v: f64) -> Option<f64> {
  // only called inside the domain where the function is mathematically defined
  match name {
    "none" => Some(v),
    "log" => (v > 0.0).then(|| v.ln()),
    "log1p" => (v > -1.0).then(|| (1.0 + v).ln()),
    "sqrt" => (v >= 0.0).then(|| v.sqrt()),
    "reciprocal" => (v != 0.0).then(|| 1.0 / v),
    _ => None,
  }
}

/// value of one function_score function for a document; Ok(None) = function does not apply (filter)
fn function_value(f: &Value, src: &Value) -> Result<Option<f64>, String> {
  if let Some(flt) = f.get("filter") {
    if !flt.is_null() && !filter_pass(flt, src).ok_or("unsupported filter")? {
      return Ok(None);
    }
  }
  let ty = f.get("type").and_then(|t| t.as_str()).ok_or("function type")?;
  match ty {
    "weight" => Ok(Some(f.get("weight").and_then(|w| w.as_f64()).ok_or("weight")?)),
    "field_value_factor" => {
      let field = f.get("field").and_then(|x| x.as_str()).ok_or("field")?;
      let factor = f.get("factor").and_then(|x| x.as_f64()).unwrap_or(1.0);
      let raw = match num_field(src, field) {
        Some(v) => v,
        None => f.get("missing").and_then(|x| x.as_f64()).ok_or("fvf on missing field without `missing`")?,
      };
      let m = f.get("modifier").and_then(|x| x.as_str()).unwrap_or("none");
      Ok(Some(modifier(m, raw * factor).ok_or("modifier outside its domain")?))
    }
    "decay" => {
      let field = f.get("field").and_then(|x| x.as_str()).ok_or("field")?;
      let v = num_field(src, field).ok_or("decay on missing field")?;
      let origin = f.get("origin").and_then(|x| x.as_f64()).ok_or("origin")?;
      let scale = f.get("scale").and_then(|x| x.as_f64()).ok_or("scale")?;
      let offset = f.get("offset").and_then(|x| x.as_f64()).unwrap_or(0.0);
      let decay = f.get("decay").and_then(|x| x.as_f64()).unwrap_or(0.5);
      let shape = f.get("function").and_then(|x| x.as_str()).ok_or("decay without explicit shape")?;
      let dist = ((v - origin).abs() - offset).max(0.0);
      let norm = dist / scale;
      Ok(Some(match shape {
        "exp" => decay.powf(norm),
        "gauss" => decay.powf(norm * norm),
        "linear" => (1.0 - norm * (1.0 - decay)).max(0.0),
        _ => return Err("decay shape".into()),
      }))
    }
    _ => Err("function type".into()),
  }
}

/// tiny arithmetic expression evaluator for script_score: + - * / unary minus, parentheses,
/// numbers, `_score`, params, numeric field names
pub struct ScriptEnv<'a> {
  pub score: f64,
  pub params: &'a HashMap<String, f64>,
  pub src: &'a Value,
}

struct SP<'a> {
  s: &'a [u8],
  i: usize,
}

impl<'a> SP<'a> {
  fn ws(&mut self) {
    while self.i < self.s.len() && (self.s[self.i] as char).is_whitespace() {
      self.i += 1;
    }
  }
  fn expr(&mut self, env: &ScriptEnv) -> Result<f64, String> {
    let mut v = self.term(env)?;
    loop {
      self.ws();
      match self.s.get(self.i) {
        Some(b'+') => {
          self.i += 1;
          v += self.term(env)?;
        }
        Some(b'-') => {
          self.i += 1;
          v -= self.term(env)?;
        }
        _ => return Ok(v),
      }
    }
  }
  fn term(&mut self, env: &ScriptEnv) -> Result<f64, String> {
    let mut v = self.unary(env)?;
    loop {
      self.ws();
      match self.s.get(self.i) {
        Some(b'*') => {
          self.i += 1;
          v *= self.unary(env)?;
        }
        Some(b'/') => {
          self.i += 1;
          let d = self.unary(env)?;
          if d == 0.0 {
            return Err("division by zero".into());
          }
          v /= d;
        }
        _ => return Ok(v),
      }
    }
  }
  fn unary(&mut self, env: &ScriptEnv) -> Result<f64, String> {
    self.ws();
    if self.s.get(self.i) == Some(&b'-') {
      self.i += 1;
      return Ok(-self.unary(env)?);
    }
    self.primary(env)
  }
  fn primary(&mut self, env: &ScriptEnv) -> Result<f64, String> {
    self.ws();
    match self.s.get(self.i).copied() {
      Some(b'(') => {
        self.i += 1;
        let v = self.expr(env)?;
        self.ws();
        if self.s.get(self.i) != Some(&b')') {
          return Err("expected )".into());
        }
        self.i += 1;
        Ok(v)
      }
      Some(c) if c.is_ascii_digit() || c == b'.' => {
        let st = self.i;
        while self.i < self.s.len() && (self.s[self.i].is_ascii_digit() || self.s[self.i] == b'.') {
          self.i += 1;
        }
        std::str::from_utf8(&self.s[st..self.i]).unwrap().parse::<f64>().map_err(|e| e.to_string())
      }
      Some(c) if c.is_ascii_alphabetic() || c == b'_' => {
        let st = self.i;
        while self.i < self.s.len() && (self.s[self.i].is_ascii_alphanumeric() || self.s[self.i] == b'_') {
          self.i += 1;
        }
        let name = std::str::from_utf8(&self.s[st..self.i]).unwrap();
        if name == "_score" {
          Ok(env.score)
        } else if let Some(p) = env.params.get(name) {
          Ok(*p)
        } else {
          num_field(env.src, name).ok_or_else(|| format!("script reads missing field {name}"))
        }
      }
      _ => Err("unexpected character".into()),
    }
  }
}

pub fn eval_script(script: &str, env: &ScriptEnv) -> Result<f64, String> {
  let mut p = SP { s: script.as_bytes(), i: 0 };
  let v = p.expr(env)?;
  p.ws();
  if p.i != p.s.len() {
    return Err("trailing input".into());
  }
  Ok(v)
}

// ---------------------------------------------------------------------------------------------
// oracle: query plan (matching + score tree), from the request JSON
// ---------------------------------------------------------------------------------------------

/// Deviations of the engine from the documented semantics that were confirmed as genuine
/// defects; used ONLY to classify a mismatch found under the documented model (all false).
#[derive(Clone, Copy, Debug, Default, PartialEq, Eq)]
pub struct Quirks {
  /// the same field:term in >= 2 scored leaves is credited (with the summed weight) to the first leaf only
  pub merged_dups: bool,
  /// a function_score / script_score nested under boosted nodes has the enclosing boost applied
  /// both to its base query and to its final value
  pub double_boost: bool,
}

#[derive(Clone, Debug)]
pub enum Q {
  MatchAll,
  /// term / prefix: matches when any key is present; scores through `leaf` (None when unscored)
  Keys { leaf: Option<usize>, keys: Vec<String> },
  QueryString { pos: Vec<(Option<usize>, Vec<String>)>, neg: Vec<Vec<String>> },
  MultiMatch { groups: Vec<Vec<String>>, neg: Vec<Vec<String>>, required: usize, best: Option<(Vec<usize>, f64)>, most: Option<usize> },
  DisMax { children: Vec<Q>, tie: f64 },
  Bool { must: Vec<Q>, should: Vec<Q>, must_not: Vec<Q>, filter: Vec<Value>, msm: Option<usize> },
  Constant { filter: Value, score: f64 },
  FunctionScore {
    inner: Box<Q>,
    functions: Vec<Value>,
    score_mode: String,
    boost_mode: String,
    max_boost: Option<f64>,
    min_score: Option<f64>,
    mult: f64,
  },
  RankFeature { field: String, modifier: String, missing: Option<f64>, mult: f64 },
  Script { inner: Box<Q>, script: String, params: HashMap<String, f64>, mult: f64 },
}

#[derive(Clone, Debug, Default)]
pub struct PlanNotes {
  pub custom_nodes: bool,
  /// some field:term key occurs in >= 2 scored leaves
  pub dup_keys: bool,
  /// a function_score/script_score sits below an enclosing boost product != 1
  pub wrapped_boost: bool,
  pub node_types: Vec<String>,
}

#[derive(Clone, Debug)]
pub struct Plan {
  pub root: Q,
  /// per leaf: (key, weight) in plan order
  pub leaves: Vec<Vec<(String, f64)>>,
  pub notes: PlanNotes,
  pub quirks: Quirks,
}

struct Planner<'a> {
  b: &'a Built,
  default_fields: Vec<String>,
  leaves: Vec<Vec<(String, f64)>>,
  notes: PlanNotes,
  quirks: Quirks,
}

fn boost_of(n: &Value) -> f64 {
  n.get("boost").and_then(|b| b.as_f64()).map(|b| b as f32 as f64).unwrap_or(1.0)
}

fn is_text(f: &str) -> bool {
  TEXT_FIELDS.contains(&f)
}

fn is_kw(f: &str) -> bool {
  f == "tag" || f == "cat"
}

/// whitespace-split terms of a query string: (field, term, negated); quotes are not generated
fn parse_qs(q: &str) -> Vec<(Option<String>, String, bool)> {
  let mut out = Vec::new();
  for raw in q.split_whitespace() {
    let neg = raw.starts_with('-');
    let tok = raw.trim_start_matches('-');
    if let Some(i) = tok.find(':') {
      out.push((Some(tok[..i].to_string()), tok[i + 1..].to_string(), neg));
    } else {
      out.push((None, tok.to_string(), neg));
    }
  }
  out
}

fn field_specs(v: Option<&Value>) -> Option<Vec<(String, f64)>> {
  let arr = v?.as_array()?;
  let mut out = Vec::new();
  for e in arr {
    if let Some(s) = e.as_str() {
      out.push((s.to_string(), 1.0));
    } else {
      let f = e.get("field")?.as_str()?.to_string();
      let b = e.get("boost").and_then(|b| b.as_f64()).map(|b| b as f32 as f64).unwrap_or(1.0);
      out.push((f, b));
    }
  }
  Some(out)
}

impl<'a> Planner<'a> {
  fn new_leaf(&mut self) -> usize {
    self.leaves.push(Vec::new());
    self.leaves.len() - 1
  }

  /// analysed, de-duplicated keys of one query term in one field
  fn keys_for(&self, field: &str, term: &str) -> Vec<String> {
    if is_text(field) {
      let a = self.b.an.search.get(field).expect("search analyzer");
      let mut seen = HashSet::new();
      let mut out = Vec::new();
      for t in a.analyze(term) {
        if seen.insert(t.text.clone()) {
          out.push(format!("{field}:{}", t.text));
        }
      }
      out
    } else if is_kw(field) {
      vec![format!("{field}:{}", term.to_ascii_lowercase())]
    } else {
      Vec::new()
    }
  }

  fn push(&mut self, leaf: Option<usize>, keys: &[String], w: f64) {
    if let Some(l) = leaf {
      for k in keys {
        self.leaves[l].push((k.clone(), w));
      }
    }
  }

  fn node(&mut self, n: &Value, score: bool, inb: f64) -> Result<Q, String> {
    let ty = n.get("type").and_then(|t| t.as_str()).ok_or("node without type")?;
    self.notes.node_types.push(ty.to_string());
    let nb = boost_of(n);
    match ty {
      "match_all" => Ok(Q::MatchAll),
      "term" => {
        let field = n.get("field").and_then(|f| f.as_str()).ok_or("term.field")?;
        let value = n.get("value").and_then(|f| f.as_str()).ok_or("term.value")?;
        let keys = self.keys_for(field, value);
        let leaf = score.then(|| self.new_leaf());
        self.push(leaf, &keys, inb * nb);
        Ok(Q::Keys { leaf, keys })
      }
      "prefix" => {
        let field = n.get("field").and_then(|f| f.as_str()).ok_or("prefix.field")?;
        let value = n.get("value").and_then(|f| f.as_str()).ok_or("prefix.value")?;
        if !is_text(field) {
          return Err("prefix on non-text field".into());
        }
        // the pattern goes through the search analyzer; only single-token lower-case ASCII prefixes are generated
        let toks = self.keys_for(field, value);
        if toks.len() != 1 {
          return Err("prefix pattern not a single token".into());
        }
        let p = toks[0].clone();
        let mut keys: Vec<String> = Vec::new();
        let mut seen = HashSet::new();
        for s in self.b.segs.iter() {
          let start = s.dict.partition_point(|k| k.as_str() < p.as_str());
          for k in s.dict[start..].iter() {
            if !k.starts_with(&p) {
              break;
            }
            if seen.insert(k.clone()) {
              keys.push(k.clone());
            }
          }
        }
        let leaf = score.then(|| self.new_leaf());
        self.push(leaf, &keys, inb * nb);
        Ok(Q::Keys { leaf, keys })
      }
      "query_string" => {
        let q = n.get("query").and_then(|f| f.as_str()).ok_or("query_string.query")?;
        if q.contains('"') {
          return Err("phrases in query_string are not modelled".into());
        }
        let base: Vec<(String, f64)> = match n.get("fields") {
          Some(v) if !v.is_null() => field_specs(Some(v)).ok_or("fields")?,
          _ => self.default_fields.iter().map(|f| (f.clone(), 1.0)).collect(),
        };
        let mut pos = Vec::new();
        let mut neg = Vec::new();
        for (field, term, is_neg) in parse_qs(q) {
          let fields: Vec<(String, f64)> = match field {
            Some(f) => vec![(f, 1.0)],
            None => base.clone(),
          };
          if is_neg {
            let mut keys = Vec::new();
            for (f, _) in fields.iter() {
              keys.extend(self.keys_for(f, &term));
            }
            neg.push(keys);
          } else {
            let leaf = score.then(|| self.new_leaf());
            let mut keys = Vec::new();
            for (f, fb) in fields.iter() {
              let ks = self.keys_for(f, &term);
              self.push(leaf, &ks, inb * nb * fb);
              keys.extend(ks);
            }
            pos.push((leaf, keys));
          }
        }
        if pos.is_empty() {
          return Err("query_string without positive terms is not modelled".into());
        }
        Ok(Q::QueryString { pos, neg })
      }
      "multi_match" => {
        let q = n.get("query").and_then(|f| f.as_str()).ok_or("multi_match.query")?;
        if q.contains('"') || q.contains(':') {
          return Err("multi_match with phrase/field syntax is not modelled".into());
        }
        let fields = field_specs(n.get("fields")).ok_or("multi_match.fields")?;
        let mt = n.get("match_type").and_then(|f| f.as_str()).unwrap_or("best_fields");
        let tie = n.get("tie_breaker").and_then(|f| f.as_f64()).map(|t| t as f32 as f64).unwrap_or(0.0);
        let terms = parse_qs(q);
        let npos = terms.iter().filter(|t| !t.2).count();
        if npos == 0 {
          return Err("multi_match without positive terms".into());
        }
        let op_and = n.get("operator").and_then(|f| f.as_str()) == Some("and");
        let mut required = if op_and { npos } else { 1 };
        if let Some(m) = n.get("minimum_should_match") {
          if let Some(v) = m.as_u64() {
            required = (v as usize).min(npos);
          } else if !m.is_null() {
            return Err("percentage minimum_should_match is not modelled".into());
          }
        }
        let (best, most) = match mt {
          "best_fields" => {
            // engine allocates the per-field leaves even when unscored; mirror the numbering
            let ls: Vec<usize> = fields.iter().map(|_| self.new_leaf()).collect();
            (Some((ls, tie)), None)
          }
          "most_fields" => (None, score.then(|| self.new_leaf())),
          _ => return Err(format!("multi_match type {mt} is not judged")),
        };
        let mut groups = Vec::new();
        let mut neg = Vec::new();
        for (_, term, is_neg) in terms {
          let mut keys = Vec::new();
          for (i, (f, fb)) in fields.iter().enumerate() {
            let ks = self.keys_for(f, &term);
            if !is_neg && score {
              let leaf = match (&best, most) {
                (Some((ls, _)), _) => Some(ls[i]),
                (None, m) => m,
              };
              self.push(leaf, &ks, inb * nb * fb);
            }
            keys.extend(ks);
          }
          if is_neg {
            neg.push(keys);
          } else {
            groups.push(keys);
          }
        }
        let best = if score { best } else { None };
        Ok(Q::MultiMatch { groups, neg, required, best, most })
      }
      "dis_max" => {
        let tie = n.get("tie_breaker").and_then(|f| f.as_f64()).map(|t| t as f32 as f64).unwrap_or(0.0);
        let mut children = Vec::new();
        for c in n.get("queries").and_then(|q| q.as_array()).ok_or("dis_max.queries")? {
          children.push(self.node(c, score, inb * nb)?);
        }
        Ok(Q::DisMax { children, tie })
      }
      "bool" => {
        let arr = |k: &str| n.get(k).and_then(|q| q.as_array()).cloned().unwrap_or_default();
        let mut must = Vec::new();
        for c in arr("must") {
          must.push(self.node(&c, score, inb * nb)?);
        }
        let mut should = Vec::new();
        for c in arr("should") {
          should.push(self.node(&c, score, inb * nb)?);
        }
        let mut must_not = Vec::new();
        for c in arr("must_not") {
          must_not.push(self.node(&c, false, inb * nb)?);
        }
        let msm = n.get("minimum_should_match").and_then(|m| m.as_u64()).map(|m| m as usize);
        Ok(Q::Bool { must, should, must_not, filter: arr("filter"), msm })
      }
      "constant_score" => {
        self.notes.custom_nodes = true;
        Ok(Q::Constant { filter: n.get("filter").cloned().ok_or("constant_score.filter")?, score: inb * nb })
      }
      "function_score" => {
        self.notes.custom_nodes = true;
        if (inb - 1.0).abs() > 1e-9 {
          self.notes.wrapped_boost = true;
        }
        let inner_b = if self.quirks.double_boost { inb } else { 1.0 };
        let inner = self.node(n.get("query").ok_or("function_score.query")?, score, inner_b)?;
        Ok(Q::FunctionScore {
          inner: Box::new(inner),
          functions: n.get("functions").and_then(|f| f.as_array()).cloned().unwrap_or_default(),
          score_mode: n.get("score_mode").and_then(|f| f.as_str()).ok_or("score_mode must be explicit")?.to_string(),
          boost_mode: n.get("boost_mode").and_then(|f| f.as_str()).ok_or("boost_mode must be explicit")?.to_string(),
          max_boost: n.get("max_boost").and_then(|f| f.as_f64()),
          min_score: n.get("min_score").and_then(|f| f.as_f64()),
          mult: inb * nb,
        })
      }
      "rank_feature" => {
        self.notes.custom_nodes = true;
        Ok(Q::RankFeature {
          field: n.get("field").and_then(|f| f.as_str()).ok_or("rank_feature.field")?.to_string(),
          modifier: n.get("modifier").and_then(|f| f.as_str()).unwrap_or("none").to_string(),
          missing: n.get("missing").and_then(|f| f.as_f64()),
          mult: inb * nb,
        })
      }
      "script_score" => {
        self.notes.custom_nodes = true;
        if (inb - 1.0).abs() > 1e-9 {
          self.notes.wrapped_boost = true;
        }
        let inner_b = if self.quirks.double_boost { inb } else { 1.0 };
        let inner = self.node(n.get("query").ok_or("script_score.query")?, score, inner_b)?;
        let mut params = HashMap::new();
        if let Some(p) = n.get("params").and_then(|p| p.as_object()) {
          for (k, v) in p {
            params.insert(k.clone(), v.as_f64().ok_or("param")?);
          }
        }
        Ok(Q::Script {
          inner: Box::new(inner),
          script: n.get("script").and_then(|f| f.as_str()).ok_or("script")?.to_string(),
          params,
          mult: inb * nb,
        })
      }
      other => Err(format!("node type {other} is not modelled")),
    }
  }
}

/// Build the oracle plan of a request's query. `req_fields` = the request's `fields` option.
pub fn plan(b: &Built, query: &Value, req_fields: Option<&Value>, quirks: Quirks) -> Result<Plan, String> {
  let default_fields: Vec<String> = match req_fields.and_then(|f| f.as_array()) {
    Some(a) => a.iter().filter_map(|x| x.as_str().map(|s| s.to_string())).collect(),
    None => TEXT_FIELDS.iter().map(|s| s.to_string()).collect(),
  };
  let mut p = Planner { b, default_fields, leaves: Vec::new(), notes: PlanNotes::default(), quirks };
  let node = if let Some(s) = query.as_str() { json!({"type":"query_string","query": s}) } else { query.clone() };
  let root = p.node(&node, true, 1.0)?;
  // duplicate keys across leaves
  let mut first: HashMap<String, usize> = HashMap::new();
  for (i, l) in p.leaves.iter().enumerate() {
    for (k, _) in l {
      match first.get(k) {
        Some(j) if *j != i => p.notes.dup_keys = true,
        Some(_) => {}
        None => {
          first.insert(k.clone(), i);
        }
      }
    }
  }
  let mut leaves = p.leaves;
  if quirks.merged_dups {
    // credit every key, with its summed weight, to the first leaf that mentions it
    let mut total: HashMap<String, f64> = HashMap::new();
    let mut order: Vec<String> = Vec::new();
    for l in leaves.iter() {
      for (k, w) in l {
        if !total.contains_key(k) {
          order.push(k.clone());
        }
        *total.entry(k.clone()).or_insert(0.0) += *w;
      }
    }
    let mut merged: Vec<Vec<(String, f64)>> = vec![Vec::new(); leaves.len()];
    for k in order {
      merged[first[&k]].push((k.clone(), total[&k]));
    }
    leaves = merged;
  }
  Ok(Plan { root, leaves, notes: p.notes, quirks })
}

// ---------------------------------------------------------------------------------------------
// oracle: evaluation for one document
// ---------------------------------------------------------------------------------------------

pub fn bm25(tf: f64, df: f64, dl: f64, avgdl: f64, n: f64, k1: f64, b: f64) -> f64 {
  let idf = ((n - df + 0.5) / (df + 0.5)).ln().max(0.0) + 1.0;
  let norm = if avgdl > 0.0 { dl / avgdl } else { 1.0 };
  idf * tf * (k1 + 1.0) / (tf + k1 * (1.0 - b + b * norm))
}

pub struct DocEval<'a> {
  pub b: &'a Built,
  pub seg: &'a SegM,
  pub doc: &'a DocM,
  pub plan: &'a Plan,
  leaf_vals: Vec<f64>,
  /// smallest (combined - min_score) seen over function_score nodes with min_score
  pub min_score_margin: Option<f64>,
}

impl<'a> DocEval<'a> {
  pub fn new(b: &'a Built, plan: &'a Plan, seg_ord: usize, doc_ord: usize) -> Self {
    let seg = &b.segs[seg_ord];
    let doc = &seg.docs[doc_ord];
    let n = seg.docs.len() as f64;
    let (k1, bb) = (b.k1 as f64, b.b as f64);
    let mut leaf_vals = Vec::with_capacity(plan.leaves.len());
    for l in plan.leaves.iter() {
      let mut s = 0.0;
      for (key, w) in l {
        if let Some(tf) = doc.tf.get(key) {
          let field = key.split(':').next().unwrap_or("");
          let df = *seg.df.get(key).unwrap_or(&0) as f64;
          let v = if is_text(field) {
            let avgdl = *seg.sum_len.get(field).unwrap_or(&0) as f64 / n;
            let dl = *doc.dl.get(field).unwrap_or(&0) as f64;
            bm25(*tf as f64, df, dl, avgdl, n, k1, bb)
          } else {
            // keyword fields carry no length: neutral length normalisation
            bm25(*tf as f64, df, 1.0, 0.0, n, k1, bb)
          };
          s += w * v;
        }
      }
      leaf_vals.push(s);
    }
    DocEval { b, seg, doc, plan, leaf_vals, min_score_margin: None }
  }

  fn has_any(&self, keys: &[String]) -> bool {
    keys.iter().any(|k| self.doc.tf.contains_key(k))
  }

  pub fn matches(&mut self, q: &Q) -> Result<bool, String> {
    Ok(match q {
      Q::MatchAll | Q::RankFeature { .. } => true,
      Q::Keys { keys, .. } => self.has_any(keys),
      Q::QueryString { pos, neg } => !neg.iter().any(|k| self.has_any(k)) && pos.iter().any(|(_, k)| self.has_any(k)),
      Q::MultiMatch { groups, neg, required, .. } => {
        !neg.iter().any(|k| self.has_any(k)) && groups.iter().filter(|k| self.has_any(k)).count() >= *required
      }
      Q::DisMax { children, .. } => {
        let mut any = false;
        for c in children {
          any |= self.matches(c)?;
        }
        any
      }
      Q::Bool { must, should, must_not, filter, msm } => {
        for c in must {
          if !self.matches(c)? {
            return Ok(false);
          }
        }
        for c in must_not {
          if self.matches(c)? {
            return Ok(false);
          }
        }
        for f in filter {
          if !filter_pass(f, &self.doc.src).ok_or("unsupported filter")? {
            return Ok(false);
          }
        }
        let mut n = 0;
        for c in should {
          if self.matches(c)? {
            n += 1;
          }
        }
        let need = msm.unwrap_or(if !should.is_empty() && must.is_empty() && filter.is_empty() { 1 } else { 0 });
        n >= need
      }
      Q::Constant { filter, .. } => filter_pass(filter, &self.doc.src).ok_or("unsupported filter")?,
      Q::FunctionScore { inner, .. } => self.matches(inner)?,
      Q::Script { inner, .. } => self.matches(inner)?,
    })
  }

  fn dismax(vals: &[f64], tie: f64) -> Option<f64> {
    if vals.is_empty() {
      return None;
    }
    let max = vals.iter().cloned().fold(f64::NEG_INFINITY, f64::max);
    let sum: f64 = vals.iter().sum();
    Some(max + tie * (sum - max))
  }

  /// None = the node does not take part in scoring
  pub fn score(&mut self, q: &Q) -> Result<Option<f64>, String> {
    Ok(match q {
      Q::MatchAll => None,
      Q::Keys { leaf, .. } => leaf.map(|l| self.leaf_vals[l]),
      Q::QueryString { pos, .. } => {
        let v: Vec<f64> = pos.iter().filter_map(|(l, _)| l.map(|l| self.leaf_vals[l])).collect();
        if v.is_empty() {
          None
        } else {
          Some(v.iter().sum())
        }
      }
      Q::MultiMatch { best, most, .. } => {
        if let Some((ls, tie)) = best {
          let v: Vec<f64> = ls.iter().map(|l| self.leaf_vals[*l]).collect();
          Self::dismax(&v, *tie)
        } else {
          most.map(|l| self.leaf_vals[l])
        }
      }
      Q::DisMax { children, tie } => {
        let mut v = Vec::new();
        for c in children {
          if let Some(s) = self.score(c)? {
            v.push(s);
          }
        }
        Self::dismax(&v, *tie)
      }
      Q::Bool { must, should, .. } => {
        let mut v = Vec::new();
        for c in must.iter().chain(should.iter()) {
          if let Some(s) = self.score(c)? {
            v.push(s);
          }
        }
        if v.is_empty() {
          None
        } else {
          Some(v.iter().sum())
        }
      }
      Q::Constant { filter, score } => {
        Some(if filter_pass(filter, &self.doc.src).ok_or("unsupported filter")? { *score } else { 0.0 })
      }
      Q::RankFeature { field, modifier: m, missing, mult } => {
        let raw = match num_field(&self.doc.src, field) {
          Some(v) => v,
          None => missing.ok_or("rank_feature on missing field without `missing`")?,
        };
        Some(modifier(m, raw).ok_or("modifier outside its domain")? * mult)
      }
      Q::FunctionScore { inner, functions, score_mode, boost_mode, max_boost, min_score, mult } => {
        if !self.matches(inner)? {
          return Ok(Some(0.0));
        }
        let base = self.score(inner)?.unwrap_or(1.0);
        let mut vals = Vec::new();
        for f in functions {
          if let Some(v) = function_value(f, &self.doc.src)? {
            vals.push(v);
          }
        }
        if vals.is_empty() {
          return Err("no function applies (undocumented case)".into());
        }
        let mut base = base;
        if self.plan.quirks == Quirks::default() {
          if base.abs() < 1e-6 {
            return Err("zero base score under function_score (undocumented case)".into());
          }
        } else if (base as f32).abs() <= f32::EPSILON {
          // classification models only: the engine substitutes 1.0 for a (nearly) zero base score
          base = 1.0;
        }
        let fs = match score_mode.as_str() {
          "sum" => vals.iter().sum::<f64>(),
          "multiply" => vals.iter().product::<f64>(),
          "max" => vals.iter().cloned().fold(f64::NEG_INFINITY, f64::max),
          "min" => vals.iter().cloned().fold(f64::INFINITY, f64::min),
          "avg" => vals.iter().sum::<f64>() / vals.len() as f64,
          _ => return Err("score_mode".into()),
        };
        let mut combined = match boost_mode.as_str() {
          "multiply" => base * fs,
          "sum" => base + fs,
          "replace" => fs,
          "max" => base.max(fs),
          "min" => base.min(fs),
          _ => return Err("boost_mode".into()),
        };
        if let Some(mb) = max_boost {
          if !(boost_mode == "replace" || boost_mode == "min") {
            return Err("max_boost with a boost_mode where its meaning is ambiguous".into());
          }
          combined = combined.min(*mb);
        }
        if let Some(ms) = min_score {
          let margin = combined - *ms;
          self.min_score_margin = Some(self.min_score_margin.map_or(margin, |m: f64| m.min(margin)));
        }
        Some(combined * mult)
      }
      Q::Script { inner, script, params, mult } => {
        if !self.matches(inner)? {
          return Ok(Some(0.0));
        }
        let base = self.score(inner)?.unwrap_or(1.0);
        let env = ScriptEnv { score: base, params, src: &self.doc.src };
        Some(eval_script(script, &env)? * mult)
      }
    })
  }

  /// final score of the document for the whole query (a query without scoring clause scores 1.0)
  pub fn total(&mut self) -> Result<(bool, f64), String> {
    let root = self.plan.root.clone();
    let m = self.matches(&root)?;
    let s = self.score(&root)?.unwrap_or(1.0);
    Ok((m, s))
  }
}

/// true when no score leaf can sum three or more postings for one document, i.e. float
/// summation order cannot make two runs of the same request differ in the last bits
pub fn bit_reproducible(p: &Plan) -> bool {
  p.leaves.iter().all(|l| l.len() <= 2)
}

/// does the query JSON contain score-adjusting nodes (constant/function/rank_feature/script)?
pub fn has_custom_nodes(q: &Value) -> bool {
  match q {
    Value::Object(m) => {
      if let Some(t) = m.get("type").and_then(|t| t.as_str()) {
        if matches!(t, "constant_score" | "function_score" | "rank_feature" | "script_score") {
          return true;
        }
      }
      m.values().any(has_custom_nodes)
    }
    Value::Array(a) => a.iter().any(has_custom_nodes),
    _ => false,
  }
}

pub fn node_types(q: &Value, out: &mut Vec<String>) {
  match q {
    Value::Object(m) => {
      if let (Some(t), true) = (m.get("type").and_then(|t| t.as_str()), m.contains_key("type")) {
        if !matches!(t, "weight" | "field_value_factor" | "decay") {
          out.push(t.to_string());
        }
      }
      for (k, v) in m {
        if k != "filter" && k != "functions" {
          node_types(v, out);
        }
      }
    }
    Value::Array(a) => a.iter().for_each(|v| node_types(v, out)),
    _ => {}
  }
}

// ---------------------------------------------------------------------------------------------
// generator of scored query trees (JSON, exactly what callers send)
// ---------------------------------------------------------------------------------------------

#[derive(Clone, Debug)]
pub struct QCfg {
  pub vocab: Vec<String>,
  pub depth: usize,
  /// constant_score / function_score / rank_feature / script_score
  pub custom: bool,
  pub cross_fields: bool,
  pub prefix: bool,
  pub kw_terms: bool,
  pub zero_boost: bool,
  /// variants that go through the analyzers (capitalised, hyphenated, stop-words)
  pub fancy_terms: bool,
  pub min_score: bool,
}

fn qword(rng: &mut Rng, cfg: &QCfg) -> String {
  let w = cfg.vocab[rng.zipf(cfg.vocab.len())].clone();
  if !cfg.fancy_terms {
    return w;
  }
  match rng.below(20) {
    0 | 1 => {
      let mut c = w.chars();
      match c.next() {
        Some(f) => f.to_uppercase().collect::<String>() + c.as_str(),
        None => w,
      }
    }
    2 => format!("{}-{}", w, cfg.vocab[rng.zipf(cfg.vocab.len())]),
    3 => "the".to_string(),
    _ => w,
  }
}

fn gen_boost(rng: &mut Rng, m: &mut Map<String, Value>, allow_zero: bool) {
  if rng.chance(0.5) {
    return;
  }
  let choices = [0.5, 2.0, 3.0, 1.5, 0.25, 10.0, 1.0, 4.0];
  let mut b = *rng.pick(&choices);
  if allow_zero && rng.chance(0.06) {
    b = 0.0;
  }
  m.insert("boost".into(), json!(b));
}

pub fn gen_filter(rng: &mut Rng, depth: usize) -> Value {
  if depth > 0 && rng.chance(0.2) {
    return match rng.below(3) {
      0 => json!({"And": [gen_filter(rng, depth - 1), gen_filter(rng, depth - 1)]}),
      1 => json!({"Or": [gen_filter(rng, depth - 1), gen_filter(rng, depth - 1)]}),
      _ => json!({"Not": gen_filter(rng, depth - 1)}),
    };
  }
  match rng.below(6) {
    0 | 1 => json!({"KeywordEq": {"field": "tag", "value": rng.pick(TAG_VALUES)}}),
    2 => json!({"KeywordEq": {"field": "cat", "value": rng.pick(CAT_VALUES)}}),
    3 => json!({"KeywordIn": {"field": "tag", "values": [rng.pick(TAG_VALUES), rng.pick(TAG_VALUES)]}}),
    4 => {
      let lo = rng.range(0, 80);
      json!({"I64Range": {"field": "age", "min": lo, "max": lo + rng.range(5, 60)}})
    }
    _ => {
      let lo = rng.range(0, 30) as f64;
      json!({"F64Range": {"field": "pop", "min": lo, "max": lo + rng.range(5, 30) as f64}})
    }
  }
}

fn gen_term(rng: &mut Rng, cfg: &QCfg, allow_zero: bool) -> Value {
  let mut m = Map::new();
  m.insert("type".into(), json!("term"));
  let r = rng.below(100);
  if cfg.kw_terms && r < 12 {
    if r < 8 {
      m.insert("field".into(), json!("tag"));
      m.insert("value".into(), json!(rng.pick(TAG_VALUES)));
    } else {
      m.insert("field".into(), json!("cat"));
      m.insert("value".into(), json!(rng.pick(CAT_VALUES)));
    }
  } else {
    m.insert("field".into(), json!(if r < 45 { "title" } else { "body" }));
    m.insert("value".into(), json!(qword(rng, cfg)));
  }
  gen_boost(rng, &mut m, allow_zero);
  Value::Object(m)
}

fn gen_fields(rng: &mut Rng) -> Value {
  match rng.below(5) {
    0 => json!(["title", "body"]),
    1 => json!([{"field": "title", "boost": 2.0}, {"field": "body"}]),
    2 => json!([{"field": "body", "boost": 0.5}, {"field": "title", "boost": 3.0}]),
    3 => json!([{"field": "body"}]),
    _ => json!([{"field": "title", "boost": 1.5}, {"field": "body", "boost": 1.5}]),
  }
}

fn gen_query_string(rng: &mut Rng, cfg: &QCfg, allow_zero: bool) -> Value {
  let n = rng.urange(1, 3);
  let mut parts = Vec::new();
  for _ in 0..n {
    let w = qword(rng, cfg);
    match rng.below(5) {
      0 => parts.push(format!("title:{w}")),
      1 => parts.push(format!("body:{w}")),
      _ => parts.push(w),
    }
  }
  if rng.chance(0.2) {
    parts.push(format!("-{}", cfg.vocab[rng.usize(cfg.vocab.len())]));
  }
  let mut m = Map::new();
  m.insert("type".into(), json!("query_string"));
  m.insert("query".into(), json!(parts.join(" ")));
  if rng.chance(0.4) {
    m.insert("fields".into(), gen_fields(rng));
  }
  gen_boost(rng, &mut m, allow_zero);
  Value::Object(m)
}

fn gen_multi_match(rng: &mut Rng, cfg: &QCfg, allow_zero: bool) -> Value {
  let n = rng.urange(1, 3);
  let ws: Vec<String> = (0..n).map(|_| qword(rng, cfg)).collect();
  let mut m = Map::new();
  m.insert("type".into(), json!("multi_match"));
  m.insert("query".into(), json!(ws.join(" ")));
  m.insert("fields".into(), gen_fields(rng));
  let r = rng.below(10);
  if r < 5 {
    m.insert("match_type".into(), json!("best_fields"));
    if rng.chance(0.6) {
      m.insert("tie_breaker".into(), json!(*rng.pick(&[0.0, 0.2, 0.5, 1.0, 0.75])));
    }
  } else if r < 8 || !cfg.cross_fields {
    m.insert("match_type".into(), json!("most_fields"));
  } else {
    m.insert("match_type".into(), json!("cross_fields"));
  }
  if rng.chance(0.25) {
    m.insert("operator".into(), json!(if rng.chance(0.5) { "and" } else { "or" }));
  }
  if rng.chance(0.15) {
    m.insert("minimum_should_match".into(), json!(rng.urange(1, n)));
  }
  gen_boost(rng, &mut m, allow_zero);
  Value::Object(m)
}

fn gen_prefix(rng: &mut Rng, cfg: &QCfg, allow_zero: bool) -> Value {
  let w = cfg.vocab[rng.zipf(cfg.vocab.len())].to_ascii_lowercase();
  let w: String = w.chars().filter(|c| c.is_ascii_alphanumeric()).collect();
  let k = rng.urange(1, 3).min(w.len().max(1));
  let p: String = w.chars().take(k).collect();
  let mut m = Map::new();
  m.insert("type".into(), json!("prefix"));
  m.insert("field".into(), json!("title"));
  m.insert("value".into(), json!(if p.is_empty() { "a".to_string() } else { p }));
  m.insert("max_expansions".into(), json!(1000));
  gen_boost(rng, &mut m, allow_zero);
  Value::Object(m)
}

fn gen_function(rng: &mut Rng, with_filter: bool) -> Value {
  let mut m = Map::new();
  match rng.below(10) {
    0..=2 => {
      m.insert("type".into(), json!("weight"));
      m.insert("weight".into(), json!(*rng.pick(&[0.5, 1.0, 2.0, 3.5, 7.0])));
    }
    3..=6 => {
      m.insert("type".into(), json!("field_value_factor"));
      match rng.below(5) {
        0 => {
          m.insert("field".into(), json!("pop"));
          m.insert("modifier".into(), json!(*rng.pick(&["none", "log1p", "sqrt"])));
          m.insert("factor".into(), json!(*rng.pick(&[0.5, 1.0, 2.0, 0.25])));
        }
        1 => {
          m.insert("field".into(), json!("age"));
          m.insert("modifier".into(), json!(*rng.pick(&["none", "log1p", "sqrt"])));
          m.insert("factor".into(), json!(*rng.pick(&[0.5, 1.0, 2.0])));
        }
        2 => {
          m.insert("field".into(), json!("pop"));
          m.insert("factor".into(), json!(*rng.pick(&[0.5, 1.0, 3.0])));
        }
        _ => {
          m.insert("field".into(), json!("opt"));
          m.insert("modifier".into(), json!(*rng.pick(&["none", "log", "log1p", "sqrt", "reciprocal"])));
          m.insert("factor".into(), json!(*rng.pick(&[1.0, 2.0, 4.0])));
          m.insert("missing".into(), json!(*rng.pick(&[1.0, 2.0, 5.0])));
        }
      }
    }
    _ => {
      m.insert("type".into(), json!("decay"));
      if rng.chance(0.6) {
        m.insert("field".into(), json!("age"));
        m.insert("origin".into(), json!(rng.range(0, 100)));
      } else {
        m.insert("field".into(), json!("pop"));
        m.insert("origin".into(), json!(rng.range(0, 50) as f64 + 0.5));
      }
      m.insert("scale".into(), json!(*rng.pick(&[5.0, 10.0, 25.0, 50.0])));
      if rng.chance(0.4) {
        m.insert("offset".into(), json!(*rng.pick(&[0.0, 2.0, 5.0])));
      }
      if rng.chance(0.6) {
        m.insert("decay".into(), json!(*rng.pick(&[0.1, 0.25, 0.5, 0.9])));
      }
      m.insert("function".into(), json!(*rng.pick(&["exp", "gauss", "linear"])));
    }
  }
  if with_filter && rng.chance(0.5) {
    m.insert("filter".into(), gen_filter(rng, 1));
  }
  Value::Object(m)
}

fn gen_custom(rng: &mut Rng, cfg: &QCfg, depth: usize, top: bool) -> Value {
  let mut m = Map::new();
  match rng.below(10) {
    0 | 1 => {
      m.insert("type".into(), json!("constant_score"));
      m.insert("filter".into(), gen_filter(rng, 1));
      gen_boost(rng, &mut m, false);
    }
    2 | 3 => {
      m.insert("type".into(), json!("rank_feature"));
      match rng.below(3) {
        0 => {
          m.insert("field".into(), json!("pop"));
          m.insert("modifier".into(), json!(*rng.pick(&["none", "log1p", "sqrt"])));
        }
        1 => {
          m.insert("field".into(), json!("age"));
          if rng.chance(0.6) {
            m.insert("modifier".into(), json!(*rng.pick(&["none", "log1p", "sqrt"])));
          }
        }
        _ => {
          m.insert("field".into(), json!("opt"));
          m.insert("modifier".into(), json!(*rng.pick(&["none", "log", "log1p", "sqrt", "reciprocal"])));
          m.insert("missing".into(), json!(*rng.pick(&[1.0, 2.0, 5.0])));
        }
      }
      gen_boost(rng, &mut m, false);
    }
    4..=7 => {
      m.insert("type".into(), json!("function_score"));
      let inner = if rng.chance(0.2) { json!({"type": "match_all"}) } else { gen_node(rng, cfg, depth.saturating_sub(1), true, false) };
      m.insert("query".into(), inner);
      let n = rng.urange(1, 3);
      let mut fs = vec![gen_function(rng, false)];
      for _ in 1..n {
        fs.push(gen_function(rng, true));
      }
      rng.shuffle(&mut fs);
      m.insert("functions".into(), json!(fs));
      m.insert("score_mode".into(), json!(*rng.pick(&["sum", "multiply", "max", "min", "avg"])));
      let bm = *rng.pick(&["multiply", "sum", "replace", "max", "min", "multiply"]);
      m.insert("boost_mode".into(), json!(bm));
      if (bm == "replace" || bm == "min") && rng.chance(0.5) {
        m.insert("max_boost".into(), json!(*rng.pick(&[0.5, 1.0, 2.0, 5.0])));
      }
      if top && cfg.min_score && rng.chance(0.2) {
        m.insert("min_score".into(), json!(*rng.pick(&[0.5, 1.0, 2.0])));
      }
      gen_boost(rng, &mut m, false);
    }
    _ => {
      m.insert("type".into(), json!("script_score"));
      let inner = if rng.chance(0.25) { json!({"type": "match_all"}) } else { gen_node(rng, cfg, depth.saturating_sub(1), true, false) };
      m.insert("query".into(), inner);
      match rng.below(5) {
        0 => {
          m.insert("script".into(), json!("_score * a + pop * w"));
          m.insert("params".into(), json!({"a": *rng.pick(&[0.5, 1.0, 2.0]), "w": *rng.pick(&[0.1, 0.5, 1.0])}));
        }
        1 => {
          m.insert("script".into(), json!("(_score + 1) * (age + 2) / 10"));
        }
        2 => {
          m.insert("script".into(), json!("pop * 0.5 + 2"));
        }
        3 => {
          m.insert("script".into(), json!("_score * _score + c / (pop + 1.5)"));
          m.insert("params".into(), json!({"c": *rng.pick(&[1.0, 3.0, 10.0])}));
        }
        _ => {
          m.insert("script".into(), json!("_score + age * 0.25"));
        }
      }
      gen_boost(rng, &mut m, false);
    }
  }
  Value::Object(m)
}

/// `in_custom`: below a function_score/script_score (zero boosts are not generated there)
pub fn gen_node(rng: &mut Rng, cfg: &QCfg, depth: usize, in_custom: bool, top: bool) -> Value {
  let allow_zero = cfg.zero_boost && !in_custom;
  let r = rng.below(100);
  if depth == 0 || r < 40 {
    let r = rng.below(100);
    return if r < 50 {
      gen_term(rng, cfg, allow_zero)
    } else if r < 70 {
      gen_query_string(rng, cfg, allow_zero)
    } else if r < 90 || !cfg.prefix {
      gen_multi_match(rng, cfg, allow_zero)
    } else {
      gen_prefix(rng, cfg, allow_zero)
    };
  }
  if cfg.custom && r < 58 {
    return gen_custom(rng, cfg, depth, top);
  }
  let mut m = Map::new();
  if r < 75 {
    m.insert("type".into(), json!("dis_max"));
    let n = rng.urange(2, 3);
    let qs: Vec<Value> = (0..n).map(|_| gen_node(rng, cfg, depth - 1, in_custom, false)).collect();
    m.insert("queries".into(), json!(qs));
    if rng.chance(0.7) {
      m.insert("tie_breaker".into(), json!(*rng.pick(&[0.0, 0.1, 0.3, 0.5, 1.0])));
    }
    gen_boost(rng, &mut m, false);
  } else {
    m.insert("type".into(), json!("bool"));
    let nm = rng.urange(0, 2);
    let ns = if nm == 0 { rng.urange(1, 3) } else { rng.urange(0, 3) };
    let must: Vec<Value> = (0..nm).map(|_| gen_node(rng, cfg, depth - 1, in_custom, false)).collect();
    let mut should: Vec<Value> = (0..ns).map(|_| gen_node(rng, cfg, depth - 1, in_custom, false)).collect();
    if cfg.custom && rng.chance(0.25) {
      should.push(gen_custom(rng, cfg, 0, false));
    }
    m.insert("must".into(), json!(must));
    m.insert("should".into(), json!(should));
    if rng.chance(0.2) {
      m.insert("must_not".into(), json!([gen_term(rng, cfg, false)]));
    }
    if rng.chance(0.2) {
      m.insert("filter".into(), json!([gen_filter(rng, 1)]));
    }
    if ns > 0 && rng.chance(0.15) {
      m.insert("minimum_should_match".into(), json!(rng.urange(1, ns)));
    }
    gen_boost(rng, &mut m, false);
  }
  Value::Object(m)
}

pub fn gen_query(rng: &mut Rng, cfg: &QCfg) -> Value {
  gen_node(rng, cfg, cfg.depth, false, true)
}

// ---------------------------------------------------------------------------------------------
// tolerance-aware comparison of a (possibly pruned / limited) list with the exhaustive list
// ---------------------------------------------------------------------------------------------

pub fn approx(a: f64, b: f64, rel: f64) -> bool {
  (a - b).abs() <= rel * a.abs().max(b.abs()) + 1e-7
}

#[derive(Clone, Debug)]
pub struct TopkDiff {
  /// short machine-readable kind
  pub kind: String,
  pub detail: Value,
  /// the list only omits documents whose exhaustive score is higher (every returned hit is a
  /// correctly scored member of the exhaustive list, in non-increasing order)
  pub only_omits_better: bool,
  /// weaker: every returned hit is a correctly scored member of the exhaustive list, in order, and the
  /// difference is that qualifying documents (better OR tied) are missing
  pub only_omits: bool,
}

/// `full`: exhaustive result (every match, engine order). `got`: the list under test, which must be an
/// admissible first `want` entries of `full`: position-wise identical, or differing only inside groups
/// of tolerance-equal scores; bit-equal scores must follow (segment, doc) order.
pub fn check_topk(
  full: &[(String, f32)],
  got: &[(String, f32)],
  want: usize,
  rel: f64,
  loc: &HashMap<String, (usize, usize)>,
  strict_ties: bool,
) -> Result<(), TopkDiff> {
  let fpos: HashMap<&str, usize> = full.iter().enumerate().map(|(i, (id, _))| (id.as_str(), i)).collect();
  let expect_len = want.min(full.len());
  let mut seen = HashSet::new();
  let mut all_known = true;
  let mut scores_ok = true;
  for (id, s) in got.iter() {
    if !seen.insert(id.as_str()) {
      return Err(TopkDiff { kind: "duplicate-hit".into(), detail: json!({"id": id}), only_omits_better: false, only_omits: false });
    }
    match fpos.get(id.as_str()) {
      None => all_known = false,
      Some(p) => {
        if !approx(*s as f64, full[*p].1 as f64, rel) {
          scores_ok = false;
        }
      }
    }
  }
  let mut sorted = true;
  for w in got.windows(2) {
    if (w[1].1 as f64) > (w[0].1 as f64) && !approx(w[0].1 as f64, w[1].1 as f64, rel) {
      sorted = false;
    }
  }
  let benign = all_known && scores_ok && sorted;
  if !all_known {
    let unknown: Vec<&String> = got.iter().filter(|(id, _)| !fpos.contains_key(id.as_str())).map(|(id, _)| id).collect();
    return Err(TopkDiff { kind: "hit-not-in-exhaustive-result".into(), detail: json!({"ids": unknown}), only_omits_better: false, only_omits: false });
  }
  if !scores_ok {
    let bad: Vec<Value> = got
      .iter()
      .filter(|(id, s)| !approx(*s as f64, full[fpos[id.as_str()]].1 as f64, rel))
      .take(5)
      .map(|(id, s)| json!({"id": id, "score": s, "exhaustive_score": full[fpos[id.as_str()]].1}))
      .collect();
    return Err(TopkDiff { kind: "score-differs-from-exhaustive".into(), detail: json!(bad), only_omits_better: false, only_omits: false });
  }
  if !sorted {
    return Err(TopkDiff { kind: "not-sorted-by-score".into(), detail: json!(got.iter().take(10).collect::<Vec<_>>()), only_omits_better: false, only_omits: false });
  }
  if got.len() != expect_len {
    // fewer hits than available: the missing ones are omissions
    let min_got = got.last().map(|g| g.1 as f64).unwrap_or(f64::NEG_INFINITY);
    let better = full.iter().filter(|(id, s)| !seen.contains(id.as_str()) && (*s as f64) > min_got && !approx(*s as f64, min_got, rel)).count();
    return Err(TopkDiff {
      kind: if got.len() < expect_len { "too-few-hits".into() } else { "too-many-hits".into() },
      detail: json!({"got": got.len(), "expected": expect_len, "omitted_better": better}),
      only_omits_better: benign && got.len() < expect_len,
      only_omits: benign && got.len() < expect_len,
    });
  }
  for i in 0..expect_len {
    if got[i].0 == full[i].0 {
      continue;
    }
    let gs = full[fpos[got[i].0.as_str()]].1 as f64;
    let es = full[i].1 as f64;
    if strict_ties {
      // scores are reproducible bit for bit (no leaf sums >= 3 addends): no tolerance is needed, the list
      // must be exactly the first entries of the exhaustive list
      let mut j = 0usize;
      let mut subseq = true;
      for g in got.iter() {
        while j < full.len() && full[j].0 != g.0 {
          j += 1;
        }
        if j == full.len() {
          subseq = false;
          break;
        }
        j += 1;
      }
      let min_got = got.last().map(|g| g.1 as f64).unwrap_or(f64::NEG_INFINITY);
      let missing: Vec<Value> = full[..expect_len].iter().filter(|(id, _)| !seen.contains(id.as_str())).take(5).map(|(id, s)| json!({"id": id, "exhaustive_score": s})).collect();
      let better = full.iter().any(|(id, s)| !seen.contains(id.as_str()) && (*s as f64) > min_got && !approx(*s as f64, min_got, rel));
      return Err(TopkDiff {
        kind: if subseq { "omits-qualifying-documents(bit-reproducible-scores)".into() } else { "tie-or-order-differs(bit-reproducible-scores)".into() },
        detail: json!({"position": i, "got": got[i], "expected": full[i], "missing_from_result": missing,
          "loc_got": loc.get(&got[i].0).map(|l| [l.0, l.1]), "loc_expected": loc.get(&full[i].0).map(|l| [l.0, l.1])}),
        only_omits_better: benign && subseq && better,
        only_omits: benign && subseq,
      });
    }
    if !approx(gs, es, rel) {
      let min_got = got.last().map(|g| g.1 as f64).unwrap_or(f64::NEG_INFINITY);
      let omitted: Vec<Value> = full
        .iter()
        .filter(|(id, s)| !seen.contains(id.as_str()) && (*s as f64) > min_got && !approx(*s as f64, min_got, rel))
        .take(5)
        .map(|(id, s)| json!({"id": id, "exhaustive_score": s}))
        .collect();
      let n_om = omitted.len();
      return Err(TopkDiff {
        kind: if n_om > 0 { "omits-better-documents".into() } else { "order-differs".into() },
        detail: json!({"position": i, "got": got[i], "expected": full[i], "omitted_better": omitted, "lowest_returned": min_got}),
        only_omits_better: benign && n_om > 0,
        only_omits: benign && n_om > 0,
      });
    }
  }
  // bit-equal scores follow (segment, doc) order
  for w in got.windows(2) {
    if w[0].1.to_bits() == w[1].1.to_bits() {
      if let (Some(a), Some(b)) = (loc.get(&w[0].0), loc.get(&w[1].0)) {
        if a >= b {
          return Err(TopkDiff {
            kind: "tie-order".into(),
            detail: json!({"first": w[0], "second": w[1], "loc_first": [a.0, a.1], "loc_second": [b.0, b.1]}),
            only_omits_better: false,
            only_omits: false,
          });
        }
      }
    }
  }
  Ok(())
}

// ---------------------------------------------------------------------------------------------
// probe: run hand-written requests against a hand-written corpus (used to reproduce minimal
// examples of findings against the real engine):  cXX probe <file.json>
// {"docs":[..], "layout":[n,..], "k1":1.2, "b":0.75, "body_analyzer":"default", "requests":[..]}
// ---------------------------------------------------------------------------------------------

pub fn probe_main(file: &str) -> i32 {
  let txt = std::fs::read_to_string(file).expect("probe file");
  let v: Value = serde_json::from_str(&txt).expect("probe json");
  let docs = v["docs"].as_array().cloned().unwrap_or_default();
  let layout: Vec<usize> = v["layout"].as_array().map(|a| a.iter().filter_map(|x| x.as_u64().map(|x| x as usize)).collect()).unwrap_or_else(|| vec![docs.len()]);
  let mut batches = Vec::new();
  let mut it = docs.into_iter();
  for n in layout {
    let b: Vec<Op> = it.by_ref().take(n).map(Op::Add).collect();
    batches.push(b);
  }
  let rest: Vec<Op> = it.map(Op::Add).collect();
  if !rest.is_empty() {
    batches.push(rest);
  }
  let c = Corpus {
    schema: schema_json(v["body_analyzer"].as_str().unwrap_or("default")),
    batches,
    k1: v["k1"].as_f64().unwrap_or(0.9) as f32,
    b: v["b"].as_f64().unwrap_or(0.4) as f32,
    positions: true,
    in_memory: true,
    dirty: false,
  };
  let dir = std::env::temp_dir().join(format!("verif-probe-{}", std::process::id()));
  let built = build(&dir, &c).expect("build");
  for req in v["requests"].as_array().cloned().unwrap_or_default() {
    println!("REQUEST {req}");
    match idx::search(&built.reader, req.clone()) {
      Err(e) => println!("  error: {e:#}"),
      Ok(res) => {
        let p = plan(&built, &req["query"], req.get("fields"), Quirks::default());
        for h in res.hits.iter() {
          let exp = match (&p, built.loc.get(&h.doc_id)) {
            (Ok(p), Some(loc)) => match DocEval::new(&built, p, loc.0, loc.1).total() {
              Ok((m, s)) => format!("expected {s:.6} (oracle match={m})"),
              Err(e) => format!("oracle: {e}"),
            },
            (Err(e), _) => format!("oracle: {e}"),
            _ => "?".into(),
          };
          println!("  hit {} score {:.6}  {}", h.doc_id, h.score, exp);
        }
        if let Some(pr) = res.profile.as_ref() {
          println!("  profile scored_docs={} postings_advanced={}", pr.execution.scored_docs, pr.execution.postings_advanced);
        }
      }
    }
  }
  let _ = std::fs::remove_dir_all(&dir);
  0
}
