//! Helpers shared by the C18 (collapse) and C19 (rescore) checks: a small ranked corpus
//! (text body, group keyword, sortable numeric/keyword fast fields), random sort specs,
//! and tie-aware comparison of sort keys computed from the ORIGINAL documents.
#![allow(dead_code)]
use searchlite_core::api::{Index, IndexReader, SearchResult};
use serde_json::{json, Map, Value};
use std::collections::HashMap;
use std::path::Path;
use vcore::{gen, idx, Rng};

#[derive(Clone, Debug)]
pub struct D {
  pub id: String,
  /// values of the collapse field (0 = absent, 1 = normal, 2 = multi-valued)
  pub grp: Vec<String>,
  pub n: Option<i64>,
  pub x: Option<f64>,
  pub tag: Option<String>,
  pub lang: Option<String>,
  pub body: String,
  /// index of the commit (segment) the document is written in
  pub seg: usize,
}

impl D {
  pub fn to_json(&self) -> Value {
    let mut m = Map::new();
    m.insert("_id".into(), json!(self.id));
    m.insert("body".into(), json!(self.body));
    match self.grp.len() {
      0 => {}
      1 => {
        m.insert("grp".into(), json!(self.grp[0]));
      }
      _ => {
        m.insert("grp".into(), json!(self.grp));
      }
    }
    if let Some(n) = self.n {
      m.insert("n".into(), json!(n));
    }
    if let Some(x) = self.x {
      m.insert("x".into(), json!(x));
    }
    if let Some(t) = self.tag.as_ref() {
      m.insert("tag".into(), json!(t));
    }
    if let Some(t) = self.lang.as_ref() {
      m.insert("lang".into(), json!(t));
    }
    Value::Object(m)
  }
}

pub fn schema_json() -> Value {
  json!({
    "doc_id_field": "_id",
    "analyzers": [],
    "text_fields": [{"name":"body","analyzer":"default","stored":true,"indexed":true,"nullable":false}],
    "keyword_fields": [
      {"name":"grp","stored":true,"indexed":true,"fast":true,"nullable":true},
      {"name":"tag","stored":true,"indexed":true,"fast":true,"nullable":true},
      {"name":"lang","stored":true,"indexed":true,"fast":true,"nullable":true}
    ],
    "numeric_fields": [
      {"name":"n","i64":true,"fast":true,"stored":true,"nullable":true},
      {"name":"x","i64":false,"fast":true,"stored":true,"nullable":true}
    ],
    "nested_fields": []
  })
}

pub struct CorpusCfg {
  pub min_docs: usize,
  pub max_docs: usize,
  pub max_groups: usize,
  pub allow_missing_grp: bool,
  pub allow_multi_grp: bool,
  pub max_commits: usize,
}

pub const TAGS: &[&str] = &["red", "green", "blue", "cyan"];
pub const LANGS: &[&str] = &["en", "fr", "de"];

/// Random corpus. Vocabulary is tiny so that term queries match many documents with
/// varying tf / length (distinct scores) as well as exact score ties.
pub fn gen_corpus(rng: &mut Rng, cfg: &CorpusCfg) -> (Vec<D>, Vec<String>) {
  let n_docs = rng.urange(cfg.min_docs, cfg.max_docs);
  let g = rng.urange(1, cfg.max_groups.max(1));
  let mode = rng.below(3);
  let p_missing = if cfg.allow_missing_grp && rng.chance(0.35) { 0.12 } else { 0.0 };
  let vs = rng.urange(3, 8);
  let vocab: Vec<String> = gen::WORDS[..vs].iter().map(|s| s.to_string()).collect();
  let layout = gen::layout(rng, n_docs, cfg.max_commits);
  let mut seg_of = Vec::with_capacity(n_docs);
  for (s, c) in layout.iter().enumerate() {
    for _ in 0..*c {
      seg_of.push(s);
    }
  }
  while seg_of.len() < n_docs {
    seg_of.push(layout.len());
  }
  let n_range = rng.urange(1, 6) as i64;
  let mut docs = Vec::with_capacity(n_docs);
  for i in 0..n_docs {
    let gi = match mode {
      0 => rng.usize(g),
      1 => {
        if rng.chance(0.6) {
          0
        } else {
          rng.usize(g)
        }
      }
      _ => rng.zipf(g),
    };
    let grp = if rng.chance(p_missing) { vec![] } else { vec![format!("g{gi}")] };
    let len = rng.urange(1, 8);
    let body: Vec<String> = (0..len).map(|_| vocab[rng.zipf(vs)].clone()).collect();
    docs.push(D {
      id: format!("d{i}"),
      grp,
      n: if rng.chance(0.9) { Some(rng.range(0, n_range)) } else { None },
      x: if rng.chance(0.85) { Some(rng.range(-4, 4) as f64 * 0.5) } else { None },
      tag: if rng.chance(0.85) { Some(rng.pick(TAGS).to_string()) } else { None },
      lang: if rng.chance(0.9) { Some(rng.pick(LANGS).to_string()) } else { None },
      body: body.join(" "),
      seg: seg_of[i],
    });
  }
  if cfg.allow_multi_grp && rng.chance(0.12) {
    let k = rng.urange(1, 2);
    for _ in 0..k {
      let i = rng.usize(n_docs);
      let a = format!("g{}", rng.usize(g));
      let b = format!("g{}", g + rng.usize(3));
      docs[i].grp = vec![a, b];
    }
  }
  (docs, vocab)
}

pub fn layout_of(docs: &[D]) -> Vec<usize> {
  // documents are kept in segment order; consecutive runs of equal `seg` form one commit
  let mut out: Vec<usize> = Vec::new();
  let mut last: Option<usize> = None;
  for d in docs {
    if last == Some(d.seg) {
      *out.last_mut().unwrap() += 1;
    } else {
      out.push(1);
      last = Some(d.seg);
    }
  }
  out
}

pub fn build_index(dir: &Path, docs: &[D]) -> anyhow::Result<(Index, IndexReader)> {
  let _ = std::fs::remove_dir_all(dir);
  std::fs::create_dir_all(dir)?;
  let js: Vec<Value> = docs.iter().map(|d| d.to_json()).collect();
  let index = idx::build(dir, true, &schema_json(), &js, &layout_of(docs))?;
  let reader = index.reader()?;
  Ok((index, reader))
}

/// Random sort of 1-2 distinct keys (or absent = engine default `_score` desc).
pub fn gen_sort(rng: &mut Rng, p_absent: f64) -> Vec<Value> {
  if rng.chance(p_absent) {
    return vec![];
  }
  let keys = ["_score", "n", "x", "tag"];
  let k = if rng.chance(0.5) { 1 } else { 2 };
  let mut out = Vec::new();
  let mut used: Vec<&str> = Vec::new();
  for _ in 0..k {
    let f = *rng.pick(&keys);
    if used.contains(&f) {
      continue;
    }
    used.push(f);
    match rng.below(3) {
      0 => out.push(json!({"field": f})),
      1 => out.push(json!({"field": f, "order": "asc"})),
      _ => out.push(json!({"field": f, "order": "desc"})),
    }
  }
  out
}

/// `[]`, `[_score]`, `[_score desc]` all mean "by descending score".
pub fn is_score_desc(sort: &[Value]) -> bool {
  if sort.is_empty() {
    return true;
  }
  sort.len() == 1
    && sort[0].get("field").and_then(|f| f.as_str()) == Some("_score")
    && sort[0].get("order").and_then(|f| f.as_str()) != Some("asc")
}

pub fn uses_score(sort: &[Value]) -> bool {
  sort.is_empty() || sort.iter().any(|s| s.get("field").and_then(|f| f.as_str()) == Some("_score"))
}

#[derive(Clone, Debug, PartialEq)]
pub enum KV {
  Score(f32),
  I(i64),
  F(f64),
  S(String),
  Missing,
}

pub fn score_close(a: f32, b: f32) -> bool {
  if a == b {
    return true;
  }
  let d = (a - b).abs();
  d <= 1e-6 || d <= 1e-5 * a.abs().max(b.abs())
}

impl KV {
  pub fn close(&self, o: &KV) -> bool {
    match (self, o) {
      (KV::Score(a), KV::Score(b)) => score_close(*a, *b),
      (a, b) => a == b,
    }
  }
}

/// Sort-key tuple of a document under `sort`, from the original document and a score.
pub fn key_of(d: &D, sort: &[Value], score: f32) -> Vec<KV> {
  if sort.is_empty() {
    return vec![KV::Score(score)];
  }
  sort
    .iter()
    .map(|s| match s.get("field").and_then(|f| f.as_str()).unwrap_or("") {
      "_score" => KV::Score(score),
      "n" => d.n.map(KV::I).unwrap_or(KV::Missing),
      "x" => d.x.map(KV::F).unwrap_or(KV::Missing),
      "tag" => d.tag.clone().map(KV::S).unwrap_or(KV::Missing),
      _ => KV::Missing,
    })
    .collect()
}

/// Documented comparison of two key tuples (README "Sorting": default order ascending,
/// descending for `_score`; documents missing the field are placed last). Used only to
/// CLASSIFY failures, never for verdicts.
pub fn cmp_keys(sort: &[Value], a: &[KV], b: &[KV]) -> std::cmp::Ordering {
  use std::cmp::Ordering::*;
  let default_sort = [json!({"field":"_score"})];
  let sort: &[Value] = if sort.is_empty() { &default_sort } else { sort };
  for (i, s) in sort.iter().enumerate() {
    let field = s.get("field").and_then(|f| f.as_str()).unwrap_or("");
    let desc = match s.get("order").and_then(|o| o.as_str()) {
      Some("desc") => true,
      Some("asc") => false,
      _ => field == "_score",
    };
    let o = match (&a[i], &b[i]) {
      (KV::Missing, KV::Missing) => Equal,
      (KV::Missing, _) => return Greater,
      (_, KV::Missing) => return Less,
      (KV::Score(x), KV::Score(y)) => x.total_cmp(y),
      (KV::I(x), KV::I(y)) => x.cmp(y),
      (KV::F(x), KV::F(y)) => x.total_cmp(y),
      (KV::S(x), KV::S(y)) => x.cmp(y),
      _ => Equal,
    };
    let o = if desc { o.reverse() } else { o };
    if o != Equal {
      return o;
    }
  }
  Equal
}

pub fn keys_close(a: &[KV], b: &[KV]) -> bool {
  a.len() == b.len() && a.iter().zip(b.iter()).all(|(x, y)| x.close(y))
}

/// A ranking as returned by the engine: ids in order plus id -> (position, score).
pub struct Ranking {
  pub ids: Vec<String>,
  pub pos: HashMap<String, usize>,
  pub score: HashMap<String, f32>,
}

impl Ranking {
  pub fn from(res: &SearchResult) -> Ranking {
    let ids: Vec<String> = res.hits.iter().map(|h| h.doc_id.clone()).collect();
    let pos = ids.iter().enumerate().map(|(i, s)| (s.clone(), i)).collect();
    let score = res.hits.iter().map(|h| (h.doc_id.clone(), h.score)).collect();
    Ranking { ids, pos, score }
  }
}

pub fn term_q(w: &str) -> Value {
  json!({"type":"term","field":"body","value":w})
}

pub fn err_stem(e: &str) -> String {
  let s: String = e.chars().filter(|c| !c.is_ascii_digit()).take(60).collect();
  s.replace('`', "'")
}
