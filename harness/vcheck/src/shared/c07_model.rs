//! C07 model: schema description, analysed document views, query AST, three-valued evaluator.
#![allow(dead_code)]
use searchlite_core::analysis::analyzer::Analyzer;
use serde_json::{json, Value};
use std::collections::{BTreeMap, BTreeSet, HashMap};

// ---------------------------------------------------------------- three-valued logic
#[derive(Clone, Copy, Debug, PartialEq, Eq)]
pub struct T {
  /// definitely matches under every admissible reading of the documentation
  pub lo: bool,
  /// matches under at least one admissible reading
  pub hi: bool,
}
pub const TT: T = T { lo: true, hi: true };
pub const FF: T = T { lo: false, hi: false };
impl T {
  pub fn b(x: bool) -> T {
    T { lo: x, hi: x }
  }
  pub fn and(self, o: T) -> T {
    T { lo: self.lo && o.lo, hi: self.hi && o.hi }
  }
  pub fn or(self, o: T) -> T {
    T { lo: self.lo || o.lo, hi: self.hi || o.hi }
  }
  pub fn not(self) -> T {
    T { lo: !self.hi, hi: !self.lo }
  }
  /// union of two admissible readings
  pub fn either(self, o: T) -> T {
    T { lo: self.lo && o.lo, hi: self.hi || o.hi }
  }
}

// ---------------------------------------------------------------- schema
#[derive(Clone, Debug)]
pub struct Ana {
  pub name: String,
  pub tokenizer: String,
  pub filters: Vec<Value>,
  pub lowercases: bool,
}
#[derive(Clone, Debug)]
pub struct TField {
  pub name: String,
  pub analyzer: String,
  pub search_analyzer: Option<String>,
}
#[derive(Clone, Debug)]
pub struct Sch {
  pub anas: Vec<Ana>,
  pub text: Vec<TField>,
  pub kw: Vec<String>,
  pub json: Value,
}
impl Sch {
  pub fn is_text(&self, f: &str) -> bool {
    self.text.iter().any(|t| t.name == f)
  }
  pub fn is_kw(&self, f: &str) -> bool {
    self.kw.iter().any(|k| k == f)
  }
  pub fn text_names(&self) -> Vec<String> {
    self.text.iter().map(|t| t.name.clone()).collect()
  }
  /// does the field's SEARCH analyzer lower-case its input?
  pub fn search_lowercases(&self, f: &str) -> bool {
    let Some(t) = self.text.iter().find(|t| t.name == f) else { return false };
    let name = t.search_analyzer.clone().unwrap_or_else(|| t.analyzer.clone());
    if name == "default" {
      return true;
    }
    self.anas.iter().find(|a| a.name == name).map(|a| a.lowercases).unwrap_or(false)
  }
  pub fn same_analyzers(&self, f: &str) -> bool {
    self.text.iter().find(|t| t.name == f).map(|t| t.search_analyzer.is_none() || t.search_analyzer.as_deref() == Some(t.analyzer.as_str())).unwrap_or(false)
  }
}

pub struct Analyzers {
  pub index: HashMap<String, Analyzer>,
  pub search: HashMap<String, Analyzer>,
}
impl Analyzers {
  /// (text, position) pairs from the field's search analyzer
  pub fn search_toks(&self, field: &str, text: &str) -> Vec<(String, u32)> {
    self.search.get(field).map(|a| a.analyze(text).into_iter().map(|t| (t.text, t.position)).collect()).unwrap_or_default()
  }
  pub fn index_toks(&self, field: &str, text: &str) -> Vec<(String, u32)> {
    self.index.get(field).map(|a| a.analyze(text).into_iter().map(|t| (t.text, t.position)).collect()).unwrap_or_default()
  }
}

// ---------------------------------------------------------------- analysed documents
#[derive(Clone, Debug, Default)]
pub struct FieldView {
  /// per value: (token, position local to the value)
  pub values: Vec<Vec<(String, u32)>>,
  pub tokens: BTreeSet<String>,
}
#[derive(Clone, Debug)]
pub struct DocView {
  pub id: String,
  pub text: HashMap<String, FieldView>,
  pub kw: HashMap<String, Vec<String>>,
  pub pop: i64,
}
fn strings(v: Option<&Value>) -> Vec<String> {
  match v {
    Some(Value::String(s)) => vec![s.clone()],
    Some(Value::Array(a)) => a.iter().filter_map(|x| x.as_str().map(|s| s.to_string())).collect(),
    _ => vec![],
  }
}
impl DocView {
  pub fn build(sch: &Sch, an: &Analyzers, d: &Value) -> DocView {
    let mut text = HashMap::new();
    for t in sch.text.iter() {
      let mut fv = FieldView::default();
      for s in strings(d.get(&t.name)) {
        let toks = an.index_toks(&t.name, &s);
        for (x, _) in toks.iter() {
          fv.tokens.insert(x.clone());
        }
        fv.values.push(toks);
      }
      text.insert(t.name.clone(), fv);
    }
    let mut kw = HashMap::new();
    for k in sch.kw.iter() {
      kw.insert(k.clone(), strings(d.get(k)));
    }
    DocView { id: d["_id"].as_str().unwrap_or("").to_string(), text, kw, pop: d.get("pop").and_then(|p| p.as_i64()).unwrap_or(0) }
  }
}

// ---------------------------------------------------------------- query AST
#[derive(Clone, Debug, PartialEq)]
pub enum F {
  KwEq(String, String),
  KwIn(String, Vec<String>),
  Pop(i64, i64),
  And(Vec<F>),
  Or(Vec<F>),
  Not(Box<F>),
}
impl F {
  pub fn to_json(&self) -> Value {
    match self {
      F::KwEq(f, v) => json!({"KeywordEq": {"field": f, "value": v}}),
      F::KwIn(f, v) => json!({"KeywordIn": {"field": f, "values": v}}),
      F::Pop(a, b) => json!({"I64Range": {"field": "pop", "min": a, "max": b}}),
      F::And(v) => json!({"And": v.iter().map(|x| x.to_json()).collect::<Vec<_>>()}),
      F::Or(v) => json!({"Or": v.iter().map(|x| x.to_json()).collect::<Vec<_>>()}),
      F::Not(x) => json!({"Not": x.to_json()}),
    }
  }
  pub fn eval(&self, d: &DocView) -> bool {
    match self {
      F::KwEq(f, v) => d.kw.get(f).map(|vals| vals.iter().any(|x| x.eq_ignore_ascii_case(v))).unwrap_or(false),
      F::KwIn(f, vs) => d.kw.get(f).map(|vals| vals.iter().any(|x| vs.iter().any(|v| x.eq_ignore_ascii_case(v)))).unwrap_or(false),
      F::Pop(a, b) => d.pop >= *a && d.pop <= *b,
      F::And(v) => v.iter().all(|x| x.eval(d)),
      F::Or(v) => v.iter().any(|x| x.eval(d)),
      F::Not(x) => !x.eval(d),
    }
  }
}

#[derive(Clone, Debug, PartialEq)]
pub enum QsPart {
  Term(Option<String>, String),
  Not(Option<String>, String),
  Phrase(Option<String>, Vec<String>),
}
#[derive(Clone, Debug, PartialEq)]
pub enum Msm {
  Count(usize),
  Pct(u32),
}
/// regex AST (rendered to a pattern string for the engine, matched by `re_match` for the oracle)
#[derive(Clone, Debug, PartialEq)]
pub enum Re {
  Ch(char),
  Any,
  Class(Vec<(char, char)>),
  Cat(Vec<Re>),
  Alt(Vec<Re>),
  Star(Box<Re>),
  Plus(Box<Re>),
  Opt(Box<Re>),
  /// `.{0}`: matches the empty string; only used by the classifier's collapse-proof probe
  Noop,
}

#[derive(Clone, Debug, PartialEq)]
pub enum Q {
  MatchAll,
  Term { field: String, value: String, boost: Option<f32> },
  Prefix { field: String, value: String },
  Wildcard { field: String, value: String },
  Regex { field: String, re: Re },
  Phrase { field: Option<String>, terms: Vec<String>, slop: Option<usize> },
  Qs { parts: Vec<QsPart>, fields: Option<Vec<String>> },
  Mm { words: Vec<String>, nots: Vec<String>, fields: Vec<String>, mtype: String, op_and: Option<bool>, msm: Option<Msm> },
  Bool { must: Vec<Q>, should: Vec<Q>, must_not: Vec<Q>, filter: Vec<F>, msm: Option<usize>, boost: Option<f32> },
  DisMax { queries: Vec<Q>, tie: Option<f32> },
  Const { filter: F },
  Func { query: Box<Q>, variant: u8 },
  Script { query: Box<Q>, variant: u8 },
  Rank { modifier: Option<String> },
}

fn render_re(r: &Re, out: &mut String, top: bool) {
  match r {
    Re::Ch(c) => out.push(*c),
    Re::Any => out.push('.'),
    Re::Noop => out.push_str(".{0}"),
    Re::Class(rs) => {
      out.push('[');
      for (a, b) in rs {
        out.push(*a);
        if a != b {
          out.push('-');
          out.push(*b);
        }
      }
      out.push(']');
    }
    Re::Cat(v) => {
      for x in v {
        render_re(x, out, false);
      }
    }
    Re::Alt(v) => {
      if !top {
        out.push('(');
      }
      for (i, x) in v.iter().enumerate() {
        if i > 0 {
          out.push('|');
        }
        render_re(x, out, false);
      }
      if !top {
        out.push(')');
      }
    }
    Re::Star(x) | Re::Plus(x) | Re::Opt(x) => {
      let atom = matches!(**x, Re::Ch(_) | Re::Any | Re::Class(_) | Re::Alt(_));
      if !atom {
        out.push('(');
      }
      render_re(x, out, false);
      if !atom {
        out.push(')');
      }
      out.push(match r {
        Re::Star(_) => '*',
        Re::Plus(_) => '+',
        _ => '?',
      });
    }
  }
}
pub fn re_string(r: &Re) -> String {
  let mut s = String::new();
  render_re(r, &mut s, true);
  s
}
fn re_m(r: &Re, s: &[char], i: usize, k: &mut dyn FnMut(usize) -> bool) -> bool {
  match r {
    Re::Ch(c) => i < s.len() && s[i] == *c && k(i + 1),
    Re::Any => i < s.len() && s[i] != '\n' && k(i + 1),
    Re::Noop => k(i),
    Re::Class(rs) => i < s.len() && rs.iter().any(|(a, b)| s[i] >= *a && s[i] <= *b) && k(i + 1),
    Re::Cat(v) => {
      fn go(v: &[Re], s: &[char], i: usize, k: &mut dyn FnMut(usize) -> bool) -> bool {
        match v.split_first() {
          None => k(i),
          Some((h, rest)) => re_m(h, s, i, &mut |j| go(rest, s, j, k)),
        }
      }
      go(v, s, i, k)
    }
    Re::Alt(v) => v.iter().any(|x| re_m(x, s, i, k)),
    Re::Opt(x) => re_m(x, s, i, k) || k(i),
    Re::Star(x) => {
      fn star(x: &Re, s: &[char], i: usize, k: &mut dyn FnMut(usize) -> bool) -> bool {
        if k(i) {
          return true;
        }
        re_m(x, s, i, &mut |j| j > i && star(x, s, j, k))
      }
      star(x, s, i, k)
    }
    Re::Plus(x) => re_m(x, s, i, &mut |j| re_m(&Re::Star(x.clone()), s, j, k)),
  }
}
/// anchored (whole string) match
pub fn re_match(r: &Re, s: &str) -> bool {
  let cs: Vec<char> = s.chars().collect();
  let n = cs.len();
  re_m(r, &cs, 0, &mut |j| j == n)
}
/// `*` any run, `?` exactly one character, everything else literal; whole string
pub fn glob_match(p: &str, s: &str) -> bool {
  let p: Vec<char> = p.chars().collect();
  let s: Vec<char> = s.chars().collect();
  fn go(p: &[char], s: &[char]) -> bool {
    match p.split_first() {
      None => s.is_empty(),
      Some(('*', rest)) => (0..=s.len()).any(|i| go(rest, &s[i..])),
      Some(('?', rest)) => !s.is_empty() && go(rest, &s[1..]),
      Some((c, rest)) => !s.is_empty() && s[0] == *c && go(rest, &s[1..]),
    }
  }
  go(&p, &s)
}
pub fn re_lower(r: &Re) -> Re {
  let lc = |c: char| c.to_lowercase().next().unwrap_or(c);
  match r {
    Re::Ch(c) => Re::Ch(lc(*c)),
    Re::Any => Re::Any,
    Re::Noop => Re::Noop,
    Re::Class(v) => Re::Class(v.iter().map(|(a, b)| (lc(*a), lc(*b))).collect()),
    Re::Cat(v) => Re::Cat(v.iter().map(re_lower).collect()),
    Re::Alt(v) => Re::Alt(v.iter().map(re_lower).collect()),
    Re::Star(x) => Re::Star(Box::new(re_lower(x))),
    Re::Plus(x) => Re::Plus(Box::new(re_lower(x))),
    Re::Opt(x) => Re::Opt(Box::new(re_lower(x))),
  }
}

pub fn levenshtein(a: &str, b: &str, osa: bool) -> usize {
  let a: Vec<char> = a.chars().collect();
  let b: Vec<char> = b.chars().collect();
  let mut d = vec![vec![0usize; b.len() + 1]; a.len() + 1];
  for i in 0..=a.len() {
    d[i][0] = i;
  }
  for j in 0..=b.len() {
    d[0][j] = j;
  }
  for i in 1..=a.len() {
    for j in 1..=b.len() {
      let c = if a[i - 1] == b[j - 1] { 0 } else { 1 };
      let mut v = (d[i - 1][j] + 1).min(d[i][j - 1] + 1).min(d[i - 1][j - 1] + c);
      if osa && i > 1 && j > 1 && a[i - 1] == b[j - 2] && a[i - 2] == b[j - 1] {
        v = v.min(d[i - 2][j - 2] + 1);
      }
      d[i][j] = v;
    }
  }
  d[a.len()][b.len()]
}

#[derive(Clone, Debug, PartialEq)]
pub struct Fz {
  pub max_edits: u8,
  pub prefix_length: usize,
  pub min_length: usize,
}

#[derive(Clone, Debug)]
pub struct Req {
  pub q: Q,
  pub fields: Option<Vec<String>>,
  pub fuzzy: Option<Fz>,
  /// send a root query_string without `fields` in the legacy plain-string form
  pub legacy_string: bool,
}
impl Req {
  pub fn to_json(&self) -> Value {
    let mut v = json!({"query": self.q.to_json(), "limit": vcore::idx::BIG_LIMIT, "execution": "bm25", "return_stored": false});
    if self.legacy_string {
      if let Q::Qs { parts, fields: None } = &self.q {
        v["query"] = json!(qs_string(parts));
      }
    }
    if let Some(f) = self.fields.as_ref() {
      v["fields"] = json!(f);
    }
    if let Some(f) = self.fuzzy.as_ref() {
      v["fuzzy"] = json!({"max_edits": f.max_edits, "prefix_length": f.prefix_length, "max_expansions": 1000, "min_length": f.min_length});
    }
    v
  }
  pub fn default_fields(&self, sch: &Sch) -> Vec<String> {
    self.fields.clone().unwrap_or_else(|| sch.text_names())
  }
}

pub fn qs_string(parts: &[QsPart]) -> String {
  let mut out: Vec<String> = Vec::new();
  for p in parts {
    out.push(match p {
      QsPart::Term(None, w) => w.clone(),
      QsPart::Term(Some(f), w) => format!("{f}:{w}"),
      QsPart::Not(None, w) => format!("-{w}"),
      QsPart::Not(Some(f), w) => format!("-{f}:{w}"),
      QsPart::Phrase(None, ws) => format!("\"{}\"", ws.join(" ")),
      QsPart::Phrase(Some(f), ws) => format!("\"{f}:{}\"", ws.join(" ")),
    });
  }
  out.join(" ")
}

const FUNC_VARIANTS: usize = 5;
fn func_json(variant: u8, inner: Value) -> Value {
  match variant as usize % FUNC_VARIANTS {
    0 => json!({"type":"function_score","query":inner,"functions":[{"type":"weight","weight":2.0}]}),
    1 => json!({"type":"function_score","query":inner,"functions":[{"type":"field_value_factor","field":"pop","factor":0.5,"modifier":"log1p","missing":0.0}],"boost_mode":"sum"}),
    2 => json!({"type":"function_score","query":inner,"functions":[{"type":"weight","weight":3.0,"filter":{"I64Range":{"field":"pop","min":10,"max":30}}},{"type":"weight","weight":0.5}],"score_mode":"max","boost_mode":"replace","max_boost":4.0}),
    3 => json!({"type":"function_score","query":inner,"functions":[],"boost":1.5}),
    _ => json!({"type":"function_score","query":inner,"functions":[{"type":"field_value_factor","field":"pop","factor":1.0,"modifier":"sqrt"}],"score_mode":"multiply","boost_mode":"multiply"}),
  }
}
fn script_json(variant: u8, inner: Value) -> Value {
  match variant % 3 {
    0 => json!({"type":"script_score","query":inner,"script":"_score + pop * w","params":{"w":0.1}}),
    1 => json!({"type":"script_score","query":inner,"script":"_score * 2 + 1"}),
    _ => json!({"type":"script_score","query":inner,"script":"pop + 1","boost":2.0}),
  }
}

impl Q {
  pub fn kind(&self) -> &'static str {
    match self {
      Q::MatchAll => "match_all",
      Q::Term { .. } => "term",
      Q::Prefix { .. } => "prefix",
      Q::Wildcard { .. } => "wildcard",
      Q::Regex { .. } => "regex",
      Q::Phrase { .. } => "phrase",
      Q::Qs { .. } => "query_string",
      Q::Mm { .. } => "multi_match",
      Q::Bool { .. } => "bool",
      Q::DisMax { .. } => "dis_max",
      Q::Const { .. } => "constant_score",
      Q::Func { .. } => "function_score",
      Q::Script { .. } => "script_score",
      Q::Rank { .. } => "rank_feature",
    }
  }
  pub fn children(&self) -> Vec<&Q> {
    match self {
      Q::Bool { must, should, must_not, .. } => must.iter().chain(should.iter()).chain(must_not.iter()).collect(),
      Q::DisMax { queries, .. } => queries.iter().collect(),
      Q::Func { query, .. } | Q::Script { query, .. } => vec![query.as_ref()],
      _ => vec![],
    }
  }
  pub fn depth(&self) -> usize {
    1 + self.children().iter().map(|c| c.depth()).max().unwrap_or(0)
  }
  pub fn visit(&self, f: &mut dyn FnMut(&Q)) {
    f(self);
    for c in self.children() {
      c.visit(f);
    }
  }
  pub fn any(&self, f: &dyn Fn(&Q) -> bool) -> bool {
    f(self) || self.children().iter().any(|c| c.any(f))
  }
  pub fn to_json(&self) -> Value {
    match self {
      Q::MatchAll => json!({"type":"match_all"}),
      Q::Term { field, value, boost } => {
        let mut v = json!({"type":"term","field":field,"value":value});
        if let Some(b) = boost {
          v["boost"] = json!(b);
        }
        v
      }
      Q::Prefix { field, value } => json!({"type":"prefix","field":field,"value":value}),
      Q::Wildcard { field, value } => json!({"type":"wildcard","field":field,"value":value}),
      Q::Regex { field, re } => json!({"type":"regex","field":field,"value":re_string(re)}),
      Q::Phrase { field, terms, slop } => {
        let mut v = json!({"type":"phrase","terms":terms});
        if let Some(f) = field {
          v["field"] = json!(f);
        }
        if let Some(s) = slop {
          v["slop"] = json!(s);
        }
        v
      }
      Q::Qs { parts, fields } => {
        let mut v = json!({"type":"query_string","query":qs_string(parts)});
        if let Some(f) = fields {
          v["fields"] = json!(f);
        }
        v
      }
      Q::Mm { words, nots, fields, mtype, op_and, msm } => {
        let mut ws: Vec<String> = words.clone();
        ws.extend(nots.iter().map(|n| format!("-{n}")));
        let mut v = json!({"type":"multi_match","query":ws.join(" "),"fields":fields,"match_type":mtype});
        if let Some(a) = op_and {
          v["operator"] = json!(if *a { "and" } else { "or" });
        }
        match msm {
          Some(Msm::Count(c)) => v["minimum_should_match"] = json!(c),
          Some(Msm::Pct(p)) => v["minimum_should_match"] = json!(format!("{p}%")),
          None => {}
        }
        v
      }
      Q::Bool { must, should, must_not, filter, msm, boost } => {
        let mut v = json!({"type":"bool"});
        if !must.is_empty() {
          v["must"] = json!(must.iter().map(|x| x.to_json()).collect::<Vec<_>>());
        }
        if !should.is_empty() {
          v["should"] = json!(should.iter().map(|x| x.to_json()).collect::<Vec<_>>());
        }
        if !must_not.is_empty() {
          v["must_not"] = json!(must_not.iter().map(|x| x.to_json()).collect::<Vec<_>>());
        }
        if !filter.is_empty() {
          v["filter"] = json!(filter.iter().map(|x| x.to_json()).collect::<Vec<_>>());
        }
        if let Some(m) = msm {
          v["minimum_should_match"] = json!(m);
        }
        if let Some(b) = boost {
          v["boost"] = json!(b);
        }
        v
      }
      Q::DisMax { queries, tie } => {
        let mut v = json!({"type":"dis_max","queries":queries.iter().map(|x| x.to_json()).collect::<Vec<_>>()});
        if let Some(t) = tie {
          v["tie_breaker"] = json!(t);
        }
        v
      }
      Q::Const { filter } => json!({"type":"constant_score","filter":filter.to_json(),"boost":2.5}),
      Q::Func { query, variant } => func_json(*variant, query.to_json()),
      Q::Script { query, variant } => script_json(*variant, query.to_json()),
      Q::Rank { modifier } => {
        let mut v = json!({"type":"rank_feature","field":"pop"});
        if let Some(m) = modifier {
          v["modifier"] = json!(m);
        }
        v
      }
    }
  }
  /// does the tree contain must_not / negation (non-scored term clauses)?
  pub fn has_negation(&self) -> bool {
    self.any(&|n| match n {
      Q::Bool { must_not, .. } => !must_not.is_empty(),
      Q::Qs { parts, .. } => parts.iter().any(|p| matches!(p, QsPart::Not(..))),
      Q::Mm { nots, .. } => !nots.is_empty(),
      _ => false,
    })
  }
  /// is there a positive (scoring) term leaf?
  pub fn has_scored_leaf(&self, scoring: bool) -> bool {
    match self {
      Q::Term { .. } | Q::Prefix { .. } | Q::Wildcard { .. } | Q::Regex { .. } => scoring,
      Q::Qs { parts, .. } => scoring && parts.iter().any(|p| matches!(p, QsPart::Term(..))),
      Q::Mm { words, .. } => scoring && !words.is_empty(),
      Q::Bool { must, should, .. } => must.iter().chain(should.iter()).any(|c| c.has_scored_leaf(scoring)),
      Q::DisMax { queries, .. } => queries.iter().any(|c| c.has_scored_leaf(scoring)),
      Q::Func { query, .. } | Q::Script { query, .. } => query.has_scored_leaf(scoring),
      _ => false,
    }
  }
  /// D2 hypothesis applies: a wildcard/regex pattern whose search analysis is exactly one token that differs from the case-normalised pattern
  pub fn collapses(&self, sch: &Sch, an: &Analyzers) -> bool {
    let (field, pat) = match self {
      Q::Wildcard { field, value } => (field, value.clone()),
      Q::Regex { field, re } => (field, re_string(re)),
      _ => return false,
    };
    if !sch.is_text(field) {
      return false;
    }
    matches!(pattern_mode(sch, an, field, &pat), PatMode::Collapsed(_))
  }
  /// Same query with `.{0}` appended to every regex whose operators the tokenizer would strip: the
  /// pattern accepts the same strings but is analysed into two tokens, so the engine keeps the raw
  /// pattern. Used to tell defect D2 from D3 when both would explain a result.
  pub fn collapse_proof(&self, sch: &Sch, an: &Analyzers) -> Q {
    let f = |c: &Q| c.collapse_proof(sch, an);
    match self {
      Q::Regex { field, re } if self.collapses(sch, an) && !matches!(re, Re::Alt(_)) => {
        Q::Regex { field: field.clone(), re: Re::Cat(vec![re.clone(), Re::Noop]) }
      }
      Q::Bool { must, should, must_not, filter, msm, boost } => Q::Bool {
        must: must.iter().map(f).collect(),
        should: should.iter().map(f).collect(),
        must_not: must_not.iter().map(f).collect(),
        filter: filter.clone(),
        msm: *msm,
        boost: *boost,
      },
      Q::DisMax { queries, tie } => Q::DisMax { queries: queries.iter().map(f).collect(), tie: *tie },
      Q::Func { query, variant } => Q::Func { query: Box::new(f(query)), variant: *variant },
      Q::Script { query, variant } => Q::Script { query: Box::new(f(query)), variant: *variant },
      other => other.clone(),
    }
  }
  /// D3 hypothesis can apply: any regex node (the emulation decides whether it explains the result)
  pub fn prefix_overreach(&self, _sch: &Sch, _an: &Analyzers, _collapse: bool) -> bool {
    matches!(self, Q::Regex { .. })
  }
  /// structural shrink candidates (each strictly smaller)
  pub fn shrinks(&self) -> Vec<Q> {
    let mut out: Vec<Q> = Vec::new();
    for c in self.children() {
      out.push(c.clone());
    }
    match self {
      Q::Bool { must, should, must_not, filter, msm, boost } => {
        let lists = [must, should, must_not];
        for (li, list) in lists.iter().enumerate() {
          for i in 0..list.len() {
            let mut l2 = (*list).clone();
            l2.remove(i);
            let (mut m, mut s, mut n) = (must.clone(), should.clone(), must_not.clone());
            match li {
              0 => m = l2,
              1 => s = l2,
              _ => n = l2,
            }
            out.push(Q::Bool { must: m, should: s, must_not: n, filter: filter.clone(), msm: *msm, boost: *boost });
          }
          for i in 0..list.len() {
            for sc in list[i].shrinks() {
              let mut l2 = (*list).clone();
              l2[i] = sc;
              let (mut m, mut s, mut n) = (must.clone(), should.clone(), must_not.clone());
              match li {
                0 => m = l2,
                1 => s = l2,
                _ => n = l2,
              }
              out.push(Q::Bool { must: m, should: s, must_not: n, filter: filter.clone(), msm: *msm, boost: *boost });
            }
          }
        }
        for i in 0..filter.len() {
          let mut f2 = filter.clone();
          f2.remove(i);
          out.push(Q::Bool { must: must.clone(), should: should.clone(), must_not: must_not.clone(), filter: f2, msm: *msm, boost: *boost });
        }
        if msm.is_some() || boost.is_some() {
          out.push(Q::Bool { must: must.clone(), should: should.clone(), must_not: must_not.clone(), filter: filter.clone(), msm: None, boost: None });
        }
      }
      Q::DisMax { queries, tie } => {
        for i in 0..queries.len() {
          if queries.len() > 1 {
            let mut q2 = queries.clone();
            q2.remove(i);
            out.push(Q::DisMax { queries: q2, tie: *tie });
          }
          for sc in queries[i].shrinks() {
            let mut q2 = queries.clone();
            q2[i] = sc;
            out.push(Q::DisMax { queries: q2, tie: *tie });
          }
        }
      }
      Q::Func { query, variant } => {
        for sc in query.shrinks() {
          out.push(Q::Func { query: Box::new(sc), variant: *variant });
        }
      }
      Q::Script { query, variant } => {
        for sc in query.shrinks() {
          out.push(Q::Script { query: Box::new(sc), variant: *variant });
        }
      }
      Q::Qs { parts, fields } => {
        if parts.len() > 1 {
          for i in 0..parts.len() {
            let mut p2 = parts.clone();
            p2.remove(i);
            out.push(Q::Qs { parts: p2, fields: fields.clone() });
          }
        }
        if fields.is_some() {
          out.push(Q::Qs { parts: parts.clone(), fields: None });
        }
      }
      Q::Mm { words, nots, fields, mtype, op_and, msm } => {
        if words.len() > 1 {
          for i in 0..words.len() {
            let mut w2 = words.clone();
            w2.remove(i);
            let m2 = match msm {
              Some(Msm::Count(c)) => Some(Msm::Count((*c).min(w2.len()).max(1))),
              x => x.clone(),
            };
            out.push(Q::Mm { words: w2, nots: nots.clone(), fields: fields.clone(), mtype: mtype.clone(), op_and: *op_and, msm: m2 });
          }
        }
        if !nots.is_empty() {
          out.push(Q::Mm { words: words.clone(), nots: vec![], fields: fields.clone(), mtype: mtype.clone(), op_and: *op_and, msm: msm.clone() });
        }
        if fields.len() > 1 {
          for i in 0..fields.len() {
            let mut f2 = fields.clone();
            f2.remove(i);
            out.push(Q::Mm { words: words.clone(), nots: nots.clone(), fields: f2, mtype: mtype.clone(), op_and: *op_and, msm: msm.clone() });
          }
        }
      }
      Q::Term { field, value, boost: Some(_) } => out.push(Q::Term { field: field.clone(), value: value.clone(), boost: None }),
      _ => {}
    }
    out
  }
}

/// longest leading run of characters that are not regex meta characters
pub fn literal_run(p: &str) -> String {
  p.chars().take_while(|c| !".*+?()[]{}|$^\\".contains(*c)).collect()
}
pub fn norm_pattern(sch: &Sch, field: &str, p: &str) -> String {
  if sch.search_lowercases(field) {
    p.to_lowercase()
  } else {
    p.to_string()
  }
}
pub enum EffPat {
  Literal(String),
  Re(Re),
  Ambiguous,
}
pub enum PatMode {
  /// the pattern keeps its structure (analysis yields 0 or >1 tokens, or exactly the case-normalised pattern)
  Raw,
  /// the tokenizer stripped every pattern operator: a single operator-free token remains
  Collapsed(String),
  /// a filter (stemmer, synonyms, ...) rewrote a pattern that still carries operators: README is silent on what that means
  Ambiguous,
}
const META: &str = ".*+?()[]{}|$^\\";
pub fn pattern_mode(sch: &Sch, an: &Analyzers, field: &str, pat: &str) -> PatMode {
  if !sch.is_text(field) {
    return PatMode::Raw;
  }
  let toks = an.search_toks(field, pat);
  if toks.len() != 1 || toks[0].0 == norm_pattern(sch, field, pat) {
    return PatMode::Raw;
  }
  if !pat.chars().any(|c| META.contains(c)) {
    // operator-free pattern rewritten by the analyzer (stemming, ...): same footing as prefix -> follow the analysis
    return PatMode::Collapsed(toks[0].0.clone());
  }
  if toks[0].0.chars().any(|c| META.contains(c)) {
    PatMode::Ambiguous
  } else {
    PatMode::Collapsed(toks[0].0.clone())
  }
}
/// the pattern the oracle evaluates: case-normalised structure, or (D2 emulation) the single analysed token
pub fn effective_regex_pattern(sch: &Sch, an: &Analyzers, field: &str, re: &Re, collapse: bool) -> EffPat {
  let pat = re_string(re);
  match pattern_mode(sch, an, field, &pat) {
    PatMode::Ambiguous => return EffPat::Ambiguous,
    PatMode::Collapsed(t) => {
      if collapse || !pat.chars().any(|c| META.contains(c)) {
        return EffPat::Literal(t);
      }
    }
    PatMode::Raw => {}
  }
  if sch.search_lowercases(field) {
    EffPat::Re(re_lower(re))
  } else {
    EffPat::Re(re.clone())
  }
}

// ---------------------------------------------------------------- evaluator
pub struct Env<'a> {
  pub sch: &'a Sch,
  pub an: &'a Analyzers,
  pub default_fields: Vec<String>,
  pub fuzzy: Option<Fz>,
  /// emulate hypothesised defect D2 (pattern collapsed to its single analysed token)
  pub emu_collapse: bool,
  /// emulate hypothesised defect D3 (regex candidates restricted to the leading literal run)
  pub emu_prefix: bool,
  /// D2 emulation may also be applied to regex nodes (false once a collapse-proof probe showed it is not observable)
  pub emu_collapse_regex: bool,
}

fn tok_match(env: &Env, q: &str, toks: &BTreeSet<String>) -> T {
  if toks.contains(q) {
    return TT;
  }
  let Some(fz) = env.fuzzy.as_ref() else { return FF };
  let k = fz.max_edits.min(2) as usize;
  let qlen = q.chars().count();
  if k == 0 || qlen < fz.min_length {
    return FF;
  }
  let pre: String = q.chars().take(fz.prefix_length.min(qlen)).collect();
  let mut r = FF;
  for t in toks.iter() {
    if !t.starts_with(&pre) {
      continue;
    }
    if levenshtein(q, t, false) <= k {
      return TT;
    }
    if levenshtein(q, t, true) <= k {
      r.hi = true;
    }
  }
  r
}

/// exact `term` semantics of one value against one field
pub fn term_on_field(env: &Env, field: &str, value: &str, d: &DocView) -> T {
  if env.sch.is_text(field) {
    let toks = env.an.search_toks(field, value);
    if toks.is_empty() {
      return FF;
    }
    let fv = match d.text.get(field) {
      Some(f) => f,
      None => return FF,
    };
    let mut by_pos: BTreeMap<u32, T> = BTreeMap::new();
    for (t, p) in toks.iter() {
      let m = tok_match(env, t, &fv.tokens);
      let e = by_pos.entry(*p).or_insert(FF);
      *e = e.or(m);
    }
    let all = by_pos.values().fold(TT, |a, b| a.and(*b));
    let any = by_pos.values().fold(FF, |a, b| a.or(*b));
    T { lo: all.lo, hi: any.hi }
  } else if env.sch.is_kw(field) {
    let vals = match d.kw.get(field) {
      Some(v) => v,
      None => return FF,
    };
    let lo = vals.iter().any(|v| v == value);
    let lowered: BTreeSet<String> = vals.iter().map(|v| v.to_lowercase()).collect();
    let hi = lo || tok_match(env, &value.to_lowercase(), &lowered).hi;
    T { lo, hi }
  } else {
    FF
  }
}

fn term_void(env: &Env, fields: &[String], value: &str) -> bool {
  fields.iter().all(|f| {
    if env.sch.is_text(f) {
      env.an.search_toks(f, value).is_empty()
    } else {
      !env.sch.is_kw(f)
    }
  })
}

fn chain(lists: &[Vec<u32>], i: usize, prev: u32, remaining: i64) -> bool {
  if i >= lists.len() {
    return true;
  }
  for &p in lists[i].iter() {
    if p <= prev {
      continue;
    }
    let gap = (p - prev - 1) as i64;
    if gap > remaining {
      continue;
    }
    if chain(lists, i + 1, p, remaining - gap) {
      return true;
    }
  }
  false
}
fn phrase_positions(alts: &[BTreeSet<String>], toks: &[(String, u32)], slop: usize) -> bool {
  let lists: Vec<Vec<u32>> = alts
    .iter()
    .map(|a| {
      let mut v: Vec<u32> = toks.iter().filter(|(t, _)| a.contains(t)).map(|(_, p)| *p).collect();
      v.sort_unstable();
      v.dedup();
      v
    })
    .collect();
  if lists.iter().any(|l| l.is_empty()) {
    return false;
  }
  if lists.len() == 1 {
    return true;
  }
  lists[0].iter().any(|&s| chain(&lists, 1, s, slop as i64))
}

pub fn phrase_on_field(env: &Env, field: &str, terms: &[String], slop: usize, d: &DocView) -> T {
  if env.sch.is_text(field) {
    let toks = env.an.search_toks(field, &terms.join(" "));
    if toks.is_empty() {
      return FF;
    }
    let maxp = toks.iter().map(|t| t.1).max().unwrap_or(0) as usize;
    let mut alts: Vec<BTreeSet<String>> = vec![BTreeSet::new(); maxp + 1];
    for (t, p) in toks {
      alts[p as usize].insert(t);
    }
    if alts.iter().any(|a| a.is_empty()) {
      return T { lo: false, hi: true };
    }
    let Some(fv) = d.text.get(field) else { return FF };
    // strict reading: inside one value; permissive reading: values laid out contiguously
    let lo = fv.values.iter().any(|v| phrase_positions(&alts, v, slop));
    let mut concat: Vec<(String, u32)> = Vec::new();
    let mut off = 0u32;
    for v in fv.values.iter() {
      if v.is_empty() {
        continue;
      }
      let m = v.iter().map(|x| x.1).max().unwrap_or(0);
      for (t, p) in v.iter() {
        concat.push((t.clone(), off + p));
      }
      off += m + 1;
    }
    let hi = lo || phrase_positions(&alts, &concat, slop);
    T { lo, hi }
  } else if env.sch.is_kw(field) {
    let joined = terms.join(" ");
    let Some(vals) = d.kw.get(field) else { return FF };
    let lo = vals.iter().any(|v| *v == joined);
    let hi = vals.iter().any(|v| v.to_lowercase() == joined.to_lowercase());
    T { lo, hi }
  } else {
    FF
  }
}

fn req_counts(n: usize, op_and: Option<bool>, msm: &Option<Msm>) -> (usize, usize) {
  match msm {
    None => {
      if op_and == Some(true) {
        (n, n)
      } else {
        (1, 1)
      }
    }
    Some(Msm::Count(c)) => ((*c).min(n), (*c).min(n)),
    Some(Msm::Pct(p)) => {
      let x = (*p as usize) * n;
      let ceil = (x + 99) / 100;
      let floor = (x / 100).max(1);
      (ceil.min(n), floor.min(n))
    }
  }
}

/// shared semantics of query_string and multi_match
#[allow(clippy::too_many_arguments)]
fn eval_qs(
  env: &Env,
  d: &DocView,
  terms: &[(Vec<String>, String)],
  nots: &[(Vec<String>, String)],
  phrases: &[(Vec<String>, Vec<String>)],
  req: &dyn Fn(usize) -> (usize, usize),
) -> T {
  if terms.is_empty() && nots.is_empty() && phrases.is_empty() {
    return FF;
  }
  let mut base = TT;
  for (fs, w) in nots {
    let m = fs.iter().fold(FF, |a, f| a.or(term_on_field(env, f, w, d)));
    base = base.and(m.not());
  }
  for (fs, ws) in phrases {
    let m = fs.iter().fold(FF, |a, f| a.or(phrase_on_field(env, f, ws, 0, d)));
    base = base.and(m);
  }
  let one = |drop_void: bool| -> T {
    let considered: Vec<&(Vec<String>, String)> = terms.iter().filter(|(fs, w)| !(drop_void && term_void(env, fs, w))).collect();
    if considered.is_empty() {
      if nots.is_empty() && phrases.is_empty() {
        return FF;
      }
      return base;
    }
    let ms: Vec<T> = considered.iter().map(|(fs, w)| fs.iter().fold(FF, |a, f| a.or(term_on_field(env, f, w, d)))).collect();
    let (strict, lenient) = req(considered.len());
    let lo = ms.iter().filter(|m| m.lo).count() >= strict;
    let hi = ms.iter().filter(|m| m.hi).count() >= lenient;
    base.and(T { lo, hi })
  };
  let a = one(false);
  if terms.iter().any(|(fs, w)| term_void(env, fs, w)) {
    a.either(one(true))
  } else {
    a
  }
}

fn expansion_tokens<'a>(env: &Env, field: &str, d: &'a DocView) -> Option<(Vec<String>, Vec<String>)> {
  // (as-is tokens, lowered tokens) — identical for text fields
  if env.sch.is_text(field) {
    let v: Vec<String> = d.text.get(field).map(|f| f.tokens.iter().cloned().collect()).unwrap_or_default();
    Some((v.clone(), v))
  } else if env.sch.is_kw(field) {
    let v: Vec<String> = d.kw.get(field).cloned().unwrap_or_default();
    let l = v.iter().map(|x| x.to_lowercase()).collect();
    Some((v, l))
  } else {
    None
  }
}

pub fn eval_expansion(env: &Env, q: &Q, d: &DocView) -> T {
  match q {
    Q::Prefix { field, value } => {
      let Some((asis, low)) = expansion_tokens(env, field, d) else { return FF };
      if env.sch.is_text(field) {
        let toks = env.an.search_toks(field, value);
        let mut distinct: Vec<String> = toks.iter().map(|t| t.0.clone()).collect();
        distinct.dedup();
        if toks.len() != 1 {
          return T { lo: false, hi: !asis.is_empty() };
        }
        let p = &toks[0].0;
        T::b(asis.iter().any(|t| t.starts_with(p.as_str()) && !t.is_empty()))
      } else {
        let lo = asis.iter().any(|t| t.starts_with(value.as_str())) && low.iter().any(|t| t.starts_with(&value.to_lowercase()));
        let hi = lo || low.iter().any(|t| t.starts_with(&value.to_lowercase()));
        T { lo, hi }
      }
    }
    Q::Wildcard { field, value } => {
      let Some((asis, low)) = expansion_tokens(env, field, d) else { return FF };
      if env.sch.is_text(field) {
        let mut pat = norm_pattern(env.sch, field, value);
        match pattern_mode(env.sch, env.an, field, value) {
          PatMode::Ambiguous => return T { lo: false, hi: !asis.is_empty() },
          PatMode::Collapsed(t) => {
            if env.emu_collapse || !value.chars().any(|c| c == '*' || c == '?') {
              pat = t;
            }
          }
          PatMode::Raw => {}
        }
        T::b(asis.iter().any(|t| glob_match(&pat, t)))
      } else {
        let a = asis.iter().any(|t| glob_match(value, t));
        let b = low.iter().any(|t| glob_match(&value.to_lowercase(), t));
        T { lo: a && b, hi: a || b }
      }
    }
    Q::Regex { field, re } => {
      let Some((asis, low)) = expansion_tokens(env, field, d) else { return FF };
      if env.sch.is_text(field) {
        match effective_regex_pattern(env.sch, env.an, field, re, env.emu_collapse && env.emu_collapse_regex) {
          EffPat::Ambiguous => T { lo: false, hi: !asis.is_empty() },
          EffPat::Literal(s) => T::b(asis.iter().any(|t| *t == s)),
          EffPat::Re(r) => {
            let run = if env.emu_prefix { literal_run(&re_string(&r)) } else { String::new() };
            T::b(asis.iter().any(|t| t.starts_with(&run) && re_match(&r, t)))
          }
        }
      } else {
        let a = asis.iter().any(|t| re_match(re, t));
        let rl = re_lower(re);
        let run = if env.emu_prefix { literal_run(&re_string(&rl)) } else { String::new() };
        let b = low.iter().any(|t| t.starts_with(&run) && re_match(&rl, t));
        T { lo: a && b, hi: a || b }
      }
    }
    _ => FF,
  }
}

fn qs_targets(_env: &Env, field: &Option<String>, base: &[String]) -> Vec<String> {
  match field {
    Some(f) => vec![f.clone()],
    None => base.to_vec(),
  }
}

pub fn eval(env: &Env, q: &Q, d: &DocView) -> T {
  match q {
    Q::MatchAll | Q::Rank { .. } => TT,
    Q::Term { field, value, .. } => term_on_field(env, field, value, d),
    Q::Prefix { .. } | Q::Wildcard { .. } | Q::Regex { .. } => eval_expansion(env, q, d),
    Q::Phrase { field, terms, slop } => {
      let fs = qs_targets(env, field, &env.default_fields);
      fs.iter().fold(FF, |a, f| a.or(phrase_on_field(env, f, terms, slop.unwrap_or(0), d)))
    }
    Q::Qs { parts, fields } => {
      let base: Vec<String> = fields.clone().unwrap_or_else(|| env.default_fields.clone());
      let mut terms = Vec::new();
      let mut nots = Vec::new();
      let mut phrases = Vec::new();
      for p in parts {
        match p {
          QsPart::Term(f, w) => terms.push((qs_targets(env, f, &base), w.clone())),
          QsPart::Not(f, w) => nots.push((qs_targets(env, f, &base), w.clone())),
          QsPart::Phrase(f, ws) => phrases.push((qs_targets(env, f, &base), ws.clone())),
        }
      }
      eval_qs(env, d, &terms, &nots, &phrases, &|_n| (1, 1))
    }
    Q::Mm { words, nots, fields, op_and, msm, .. } => {
      let terms: Vec<(Vec<String>, String)> = words.iter().map(|w| (fields.clone(), w.clone())).collect();
      let nots: Vec<(Vec<String>, String)> = nots.iter().map(|w| (fields.clone(), w.clone())).collect();
      eval_qs(env, d, &terms, &nots, &[], &|n| req_counts(n, *op_and, msm))
    }
    Q::Bool { must, should, must_not, filter, msm, .. } => {
      let mut r = TT;
      for c in must {
        r = r.and(eval(env, c, d));
      }
      for c in must_not {
        r = r.and(eval(env, c, d).not());
      }
      for f in filter {
        r = r.and(T::b(f.eval(d)));
      }
      let need = msm.unwrap_or(if should.is_empty() {
        0
      } else if must.is_empty() && filter.is_empty() {
        1
      } else {
        0
      });
      let ms: Vec<T> = should.iter().map(|c| eval(env, c, d)).collect();
      let lo = ms.iter().filter(|m| m.lo).count() >= need;
      let hi = ms.iter().filter(|m| m.hi).count() >= need;
      r.and(T { lo, hi })
    }
    Q::DisMax { queries, .. } => queries.iter().fold(FF, |a, c| a.or(eval(env, c, d))),
    Q::Const { filter } => T::b(filter.eval(d)),
    Q::Func { query, .. } | Q::Script { query, .. } => eval(env, query, d),
  }
}

/// does the document contain any positive (scoring) term of the query? (three-valued)
pub fn scored_any(env: &Env, q: &Q, d: &DocView) -> T {
  match q {
    Q::Term { field, value, .. } => term_on_field(env, field, value, d),
    Q::Prefix { .. } | Q::Wildcard { .. } | Q::Regex { .. } => eval_expansion(env, q, d),
    Q::Qs { parts, fields } => {
      let base: Vec<String> = fields.clone().unwrap_or_else(|| env.default_fields.clone());
      parts.iter().fold(FF, |a, p| match p {
        QsPart::Term(f, w) => qs_targets(env, f, &base).iter().fold(a, |b, x| b.or(term_on_field(env, x, w, d))),
        _ => a,
      })
    }
    Q::Mm { words, fields, .. } => words.iter().fold(FF, |a, w| fields.iter().fold(a, |b, f| b.or(term_on_field(env, f, w, d)))),
    Q::Bool { must, should, .. } => must.iter().chain(should.iter()).fold(FF, |a, c| a.or(scored_any(env, c, d))),
    Q::DisMax { queries, .. } => queries.iter().fold(FF, |a, c| a.or(scored_any(env, c, d))),
    Q::Func { query, .. } | Q::Script { query, .. } => scored_any(env, query, d),
    _ => FF,
  }
}
