//! Random schemas and schema-valid documents shared by c14.rs and c15.rs.
//! Everything here is derived from the README's schema/document description only
//! (no engine internals): text/keyword/numeric fields, nested objects with child
//! objects, nullable flags, and the value shapes the properties name explicitly
//! (absent, null, scalar, one-element array, multi-valued array, empty array).
#![allow(dead_code)]
use serde_json::{json, Map, Value};
use vcore::gen::{self, FieldInfo, Kind, NestedInfo, SchemaInfo};
use vcore::Rng;

pub struct SchemaOpts {
  /// every field stored (compaction can rebuild everything)
  pub all_stored: bool,
  /// probability that a keyword/numeric field is `fast`
  pub p_fast: f64,
  pub p_nullable: f64,
  /// at least one nested field
  pub want_nested: bool,
}

fn fi(prefix: &str, name: &str, kind: Kind, stored: bool, indexed: bool, fast: bool, nullable: bool) -> FieldInfo {
  FieldInfo {
    name: name.to_string(),
    path: if prefix.is_empty() { name.to_string() } else { format!("{prefix}.{name}") },
    kind,
    stored,
    indexed: if matches!(kind, Kind::I64 | Kind::F64) { true } else { indexed },
    fast: if kind == Kind::Text { false } else { fast },
    nullable,
    analyzer: "default".into(),
    search_analyzer: None,
  }
}

pub fn gen_schema(rng: &mut Rng, o: &SchemaOpts) -> SchemaInfo {
  let stored = |rng: &mut Rng| o.all_stored || rng.chance(0.75);
  let mut fields = Vec::new();
  // text
  fields.push(fi("", "body", Kind::Text, true, true, false, false));
  if rng.chance(0.7) {
    let s = stored(rng);
    fields.push(fi("", "title", Kind::Text, s, true, false, rng.chance(o.p_nullable)));
  }
  if rng.chance(0.3) {
    // stored-only text
    fields.push(fi("", "note", Kind::Text, true, false, false, rng.chance(o.p_nullable)));
  }
  // keyword
  {
    let s = stored(rng);
    fields.push(fi("", "tag", Kind::Keyword, s, true, rng.chance(o.p_fast), rng.chance(o.p_nullable)));
  }
  if rng.chance(0.5) {
    let s = stored(rng);
    fields.push(fi("", "cat", Kind::Keyword, s, rng.chance(0.8), rng.chance(o.p_fast), rng.chance(o.p_nullable)));
  }
  // numeric
  {
    let s = stored(rng);
    fields.push(fi("", "n", Kind::I64, s, true, rng.chance(o.p_fast), rng.chance(o.p_nullable)));
  }
  if rng.chance(0.7) {
    let s = stored(rng);
    fields.push(fi("", "x", Kind::F64, s, true, rng.chance(o.p_fast), rng.chance(o.p_nullable)));
  }
  let mut nested = Vec::new();
  let n_nested = if o.want_nested { rng.urange(1, 2) } else { rng.urange(0, 2) };
  for name in ["c", "d"].iter().take(n_nested) {
    let mut nf = Vec::new();
    {
      let s = stored(rng);
      nf.push(fi(name, "who", Kind::Keyword, s, true, rng.chance(o.p_fast), rng.chance(o.p_nullable)));
    }
    if rng.chance(0.8) {
      let s = stored(rng);
      nf.push(fi(name, "k", Kind::I64, s, true, rng.chance(o.p_fast), rng.chance(o.p_nullable.max(0.6))));
    }
    if rng.chance(0.4) {
      let s = stored(rng);
      nf.push(fi(name, "s", Kind::F64, s, true, rng.chance(o.p_fast), true));
    }
    if rng.chance(0.5) {
      let s = stored(rng);
      nf.push(fi(name, "t", Kind::Text, s, true, false, true));
    }
    let mut children = Vec::new();
    if rng.chance(0.55) {
      let p = format!("{name}.sub");
      let mut cf = Vec::new();
      {
        let s = stored(rng);
        cf.push(fi(&p, "w", Kind::Keyword, s, true, rng.chance(o.p_fast), true));
      }
      if rng.chance(0.7) {
        let s = stored(rng);
        cf.push(fi(&p, "z", Kind::I64, s, true, rng.chance(o.p_fast), true));
      }
      children.push(NestedInfo { name: "sub".into(), path: p, nullable: rng.chance(0.7), fields: cf, children: vec![] });
    }
    nested.push(NestedInfo {
      name: name.to_string(),
      path: name.to_string(),
      nullable: rng.chance(o.p_nullable.max(0.5)),
      fields: nf,
      children,
    });
  }
  SchemaInfo {
    doc_id_field: if rng.chance(0.15) { "pk".into() } else { "_id".into() },
    analyzers: json!([]),
    fields,
    nested,
  }
}

/// One schema-valid scalar for a leaf field.
pub fn scalar(rng: &mut Rng, f: &FieldInfo) -> Value {
  match f.kind {
    Kind::Text => json!(gen::sentence(rng, 1, 5)),
    Kind::Keyword => json!(rng.pick(gen::TAGS)),
    Kind::I64 => json!(rng.range(-5, 20)),
    Kind::F64 => {
      let x = (rng.range(-80, 160) as f64) / 8.0;
      // an integer literal is a valid value of a float field too
      if x.fract() == 0.0 && rng.chance(0.3) {
        json!(x as i64)
      } else {
        json!(x)
      }
    }
  }
}

/// A schema-valid value (or absence) for a leaf field. `required`: must be present and not null.
pub fn leaf_value(rng: &mut Rng, f: &FieldInfo, required: bool) -> Option<Value> {
  let r = rng.below(100);
  if r < 14 && !required {
    return None;
  }
  if r < 26 && f.nullable && !required {
    return Some(Value::Null);
  }
  if r < 34 {
    return Some(json!([]));
  }
  if r < 46 {
    return Some(json!([scalar(rng, f)]));
  }
  if r < 64 {
    let n = rng.urange(2, 3);
    return Some(Value::Array((0..n).map(|_| scalar(rng, f)).collect()));
  }
  Some(scalar(rng, f))
}

/// Is the stored projection of a nested value non-empty (README: nested objects are
/// filtered to their stored properties; empty objects and nulls carry nothing)?
pub fn projection_nonempty(n: &NestedInfo, v: &Value) -> bool {
  match v {
    Value::Array(a) => a.iter().any(|x| projection_nonempty(n, x)),
    Value::Object(m) => {
      n.fields.iter().any(|f| f.stored && m.get(&f.name).map(|x| !x.is_null()).unwrap_or(false))
        || n.children.iter().any(|c| m.get(&c.name).map(|x| projection_nonempty(c, x)).unwrap_or(false))
    }
    _ => false,
  }
}

pub struct DocOpts {
  /// non-nullable child objects always get a value whose stored projection is non-empty
  pub required_children_nonempty: bool,
}

pub fn nested_object(rng: &mut Rng, n: &NestedInfo, o: &DocOpts, depth: usize) -> Value {
  let mut m = Map::new();
  for f in n.fields.iter() {
    if let Some(v) = leaf_value(rng, f, !f.nullable) {
      m.insert(f.name.clone(), v);
    }
  }
  for c in n.children.iter() {
    if c.nullable {
      match rng.below(10) {
        0..=2 => {}
        3 => {
          m.insert(c.name.clone(), Value::Null);
        }
        _ => {
          if let Some(v) = nested_value(rng, c, o, depth + 1, false) {
            m.insert(c.name.clone(), v);
          }
        }
      }
    } else {
      // required: present, not null
      let mut v = nested_value(rng, c, o, depth + 1, true).unwrap_or(json!({}));
      if o.required_children_nonempty {
        let mut tries = 0;
        while !projection_nonempty(c, &v) && tries < 50 {
          v = nested_value(rng, c, o, depth + 1, true).unwrap_or(json!({}));
          tries += 1;
        }
        if !projection_nonempty(c, &v) {
          // force one stored property
          let mut obj = Map::new();
          if let Some(f) = c.fields.iter().find(|f| f.stored) {
            obj.insert(f.name.clone(), scalar(rng, f));
          }
          v = Value::Object(obj);
        }
      }
      m.insert(c.name.clone(), v);
    }
  }
  Value::Object(m)
}

fn has_required(n: &NestedInfo) -> bool {
  n.fields.iter().any(|f| !f.nullable) || n.children.iter().any(|c| !c.nullable)
}

/// A schema-valid value (or absence) of a nested field: absent, null (nullable only), one object,
/// arrays of objects that may contain nulls (nullable only) and `{}` (when nothing is required), `[]`.
pub fn nested_value(rng: &mut Rng, n: &NestedInfo, o: &DocOpts, depth: usize, required: bool) -> Option<Value> {
  let r = rng.below(100);
  if r < 12 && !required {
    return None;
  }
  if r < 22 && n.nullable && !required {
    return Some(Value::Null);
  }
  if r < 28 {
    return Some(json!([]));
  }
  if r < 36 && !has_required(n) {
    return Some(if rng.chance(0.5) { json!({}) } else { json!([{}]) });
  }
  if r < 52 {
    return Some(nested_object(rng, n, o, depth));
  }
  let len = rng.urange(1, 4);
  let mut arr = Vec::new();
  for _ in 0..len {
    let q = rng.below(100);
    if q < 14 && n.nullable {
      arr.push(Value::Null);
    } else if q < 26 && !has_required(n) {
      arr.push(json!({}));
    } else {
      arr.push(nested_object(rng, n, o, depth));
    }
  }
  Some(Value::Array(arr))
}

/// A random schema-valid document.
pub fn gen_doc(rng: &mut Rng, s: &SchemaInfo, id: &str, o: &DocOpts) -> Value {
  let mut m = Map::new();
  m.insert(s.doc_id_field.clone(), json!(id));
  for f in s.fields.iter() {
    // `body` is always given so that every document is findable by text
    let required = f.name == "body";
    if let Some(v) = leaf_value(rng, f, required) {
      if required && v.as_array().map(|a| a.is_empty()).unwrap_or(false) {
        m.insert(f.name.clone(), scalar(rng, f));
      } else {
        m.insert(f.name.clone(), v);
      }
    }
  }
  for n in s.nested.iter() {
    if let Some(v) = nested_value(rng, n, o, 0, false) {
      m.insert(n.name.clone(), v);
    }
  }
  Value::Object(m)
}

/// Values of a top-level field in a document (scalar -> one, array -> elements, null/absent -> none).
pub fn values_of(doc: &Value, field: &str) -> Vec<Value> {
  match doc.get(field) {
    None | Some(Value::Null) => vec![],
    Some(Value::Array(a)) => a.iter().filter(|x| !x.is_null()).cloned().collect(),
    Some(v) => vec![v.clone()],
  }
}
