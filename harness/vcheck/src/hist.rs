//! History generator + executor shared by the write-path properties (C04, C01, C02, C03, C14).
use searchlite_core::api::{Index, IndexWriter};
use serde_json::{json, Value};
use vcore::gen::{self, SchemaInfo};
use vcore::model::{Handle, Model};
use vcore::Rng;

#[derive(Clone, Debug)]
pub enum Call {
  Open(usize),
  Drop(usize),
  Add(usize, String, Value),
  Delete(usize, String),
  Commit(usize),
  Rollback(usize),
  Compact,
  Reopen,
}

impl Call {
  pub fn to_json(&self) -> Value {
    match self {
      Call::Open(h) => json!({"open": h}),
      Call::Drop(h) => json!({"drop": h}),
      Call::Add(h, id, d) => json!({"add": id, "h": h, "doc": d}),
      Call::Delete(h, id) => json!({"delete": id, "h": h}),
      Call::Commit(h) => json!({"commit": h}),
      Call::Rollback(h) => json!({"rollback": h}),
      Call::Compact => json!("compact"),
      Call::Reopen => json!("reopen"),
    }
  }
  pub fn from_json(v: &Value) -> Option<Call> {
    if let Some(s) = v.as_str() {
      return match s {
        "compact" => Some(Call::Compact),
        "reopen" => Some(Call::Reopen),
        _ => None,
      };
    }
    let h = |k: &str| v.get(k).and_then(|x| x.as_u64()).map(|x| x as usize);
    if let Some(x) = h("open") {
      return Some(Call::Open(x));
    }
    if let Some(x) = h("drop") {
      return Some(Call::Drop(x));
    }
    if let Some(x) = h("commit") {
      return Some(Call::Commit(x));
    }
    if let Some(x) = h("rollback") {
      return Some(Call::Rollback(x));
    }
    if let Some(id) = v.get("add").and_then(|x| x.as_str()) {
      return Some(Call::Add(h("h")?, id.to_string(), v.get("doc")?.clone()));
    }
    if let Some(id) = v.get("delete").and_then(|x| x.as_str()) {
      return Some(Call::Delete(h("h")?, id.to_string()));
    }
    None
  }
  pub fn kind(&self) -> &'static str {
    match self {
      Call::Open(_) => "open",
      Call::Drop(_) => "drop",
      Call::Add(..) => "add",
      Call::Delete(..) => "delete",
      Call::Commit(_) => "commit",
      Call::Rollback(_) => "rollback",
      Call::Compact => "compact",
      Call::Reopen => "reopen",
    }
  }
}

pub struct HistCfg {
  pub len: usize,
  pub ids: usize,
  pub max_handles: usize,
  pub p_commit: f64,
  pub p_rollback: f64,
  pub p_compact: f64,
  pub p_reopen: f64,
}

/// Generate a well-formed history (handles are opened before use; slots are reused).
pub fn gen_history(rng: &mut Rng, cfg: &HistCfg) -> Vec<Call> {
  let mut alive = vec![false; cfg.max_handles];
  let mut out = Vec::new();
  let mut version = 0u64;
  while out.len() < cfg.len {
    let n_alive = alive.iter().filter(|a| **a).count();
    let r = rng.f64();
    if n_alive == 0 || (n_alive < cfg.max_handles && r < 0.06) {
      let free: Vec<usize> = (0..cfg.max_handles).filter(|i| !alive[*i]).collect();
      let h = *rng.pick(&free);
      alive[h] = true;
      out.push(Call::Open(h));
      continue;
    }
    let hs: Vec<usize> = (0..cfg.max_handles).filter(|i| alive[*i]).collect();
    let h = *rng.pick(&hs);
    let r2 = rng.f64();
    let mut acc = 0.0;
    let mut hit = |p: f64| {
      acc += p;
      r2 < acc
    };
    if hit(cfg.p_commit) {
      out.push(Call::Commit(h));
    } else if hit(cfg.p_rollback) {
      out.push(Call::Rollback(h));
    } else if hit(cfg.p_compact) {
      out.push(Call::Compact);
    } else if hit(cfg.p_reopen) {
      for a in alive.iter_mut() {
        *a = false;
      }
      out.push(Call::Reopen);
    } else if hit(0.05) {
      alive[h] = false;
      out.push(Call::Drop(h));
    } else if hit(0.2) {
      let id = format!("d{}", rng.usize(cfg.ids));
      out.push(Call::Delete(h, id));
    } else {
      let id = format!("d{}", rng.usize(cfg.ids));
      version += 1;
      let doc = gen::simple_doc(rng, &id, &format!("v{version}"));
      out.push(Call::Add(h, id, doc));
    }
  }
  out
}

/// Model-side execution of one call.
pub fn model_step(m: &mut Model, handles: &mut Vec<Option<Handle>>, c: &Call) {
  match c {
    Call::Open(h) => handles[*h] = Some(m.open_handle()),
    Call::Drop(h) => handles[*h] = None,
    Call::Add(h, id, d) => {
      let mut hh = handles[*h].take().unwrap();
      m.add(&mut hh, id, d);
      handles[*h] = Some(hh);
    }
    Call::Delete(h, id) => {
      let mut hh = handles[*h].take().unwrap();
      m.delete(&mut hh, id);
      handles[*h] = Some(hh);
    }
    Call::Commit(h) => {
      let mut hh = handles[*h].take().unwrap();
      m.commit(&mut hh);
      handles[*h] = Some(hh);
    }
    Call::Rollback(h) => {
      let mut hh = handles[*h].take().unwrap();
      m.rollback(&mut hh);
      handles[*h] = Some(hh);
    }
    Call::Compact => {}
    Call::Reopen => {
      for h in handles.iter_mut() {
        *h = None;
      }
    }
  }
}

/// Engine-side execution of one call (Reopen is done by the caller, which owns the Index).
pub fn engine_step(index: &Index, writers: &mut Vec<Option<IndexWriter>>, c: &Call) -> anyhow::Result<()> {
  match c {
    Call::Open(h) => {
      writers[*h] = Some(index.writer()?);
    }
    Call::Drop(h) => {
      writers[*h] = None;
    }
    Call::Add(h, _, d) => {
      writers[*h].as_mut().unwrap().add_document(&vcore::idx::doc(d))?;
    }
    Call::Delete(h, id) => {
      writers[*h].as_mut().unwrap().delete_document(id)?;
    }
    Call::Commit(h) => {
      writers[*h].as_mut().unwrap().commit()?;
    }
    Call::Rollback(h) => {
      writers[*h].as_mut().unwrap().rollback()?;
    }
    Call::Compact => {
      index.compact()?;
    }
    Call::Reopen => {}
  }
  Ok(())
}

pub fn schema() -> SchemaInfo {
  gen::simple_schema()
}
