#!/bin/bash
# C26 thorough additionally uses an AddressSanitizer build of its worker (nightly).
# A failure here is not fatal: the guard-page monitor is the deciding oracle in both tiers.
if [ "${1:-quick}" = "thorough" ]; then
  timeout 2400 "${VERIF_ROOT:-/verif}/tools/build_asan.sh" || echo "asan build unavailable; continuing with the guard-page monitor only"
fi
exit 0
