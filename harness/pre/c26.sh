#!/bin/bash
# C26 extra builds. Failures here are not fatal: the guard-page monitor is the deciding
# oracle in both tiers; a missing lane is recorded in the evidence (asan_build_used, miri_lane).
HERE="$(cd "$(dirname "${BASH_SOURCE[0]}")/.." && pwd)"
# 1. Miri lane (both tiers): compile harness/vmiri for the interpreter outside the run's watchdog.
#    "warm" makes the program exit before doing anything.
if [ -z "${VERIF_NO_MIRI:-}" ]; then
  ( cd "$HERE" && env -u RUSTFLAGS -u CARGO_TARGET_DIR -u RUSTUP_TOOLCHAIN MIRIFLAGS="-Zmiri-disable-isolation -Zmiri-ignore-leaks" \
      timeout 2400 cargo +nightly miri run --offline -q -p vmiri -- /nonexistent 0 warm ) || echo "miri build unavailable; the lane will report inconclusive"
fi
# 2. thorough additionally uses an AddressSanitizer build of the worker (nightly).
if [ "${1:-quick}" = "thorough" ]; then
  timeout 2400 "${VERIF_ROOT:-/verif}/tools/build_asan.sh" || echo "asan build unavailable; continuing with the guard-page monitor only"
fi
exit 0
