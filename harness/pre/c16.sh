#!/bin/bash
# C16 additionally runs a debug-assertions build of its worker.
cd "$(dirname "${BASH_SOURCE[0]}")/.." && cargo build --offline --profile verif-dbg -p vcheck --bin c16
