#!/bin/bash
# Builds the repository's own front-end binaries (searchlite-http, searchlite-cli) from the
# current working tree into /verif/target/repo-bins (nothing is written under /repo).
unset RUSTFLAGS
export CARGO_NET_OFFLINE=true
cd "${VERIF_REPO:-/repo}" && cargo build --offline --release -p searchlite-http -p searchlite-cli --target-dir "${VERIF_ROOT:-/verif}/target/repo-bins"
