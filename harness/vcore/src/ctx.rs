//! Check context: tier/seed handling, per-case reporters, evidence and
//! known-findings plumbing. One `Ctx` per check run; `Local` is the
//! thread-local part that worker threads fill and the context merges.
use crate::rng::{hash_str, Rng};
use serde_json::{json, Map, Value};
use std::cell::RefCell;
use std::collections::{BTreeMap, HashSet};
use std::hash::{Hash, Hasher};
use std::path::PathBuf;
use std::sync::atomic::{AtomicU64, Ordering};
use std::sync::Mutex;
use std::time::Instant;

#[derive(Clone, Copy, PartialEq, Eq, Debug)]
pub enum Tier {
  Quick,
  Thorough,
}

#[derive(Clone, Debug)]
pub struct Fail {
  /// root-cause classifier output; known findings are keyed on this exact string
  pub signature: String,
  pub what: String,
  pub case: Value,
  pub case_idx: u64,
}

#[derive(Default)]
pub struct Local {
  pub evals: u64,
  pub fps: HashSet<u64>,
  pub samples: Vec<Value>,
  pub fails: Vec<Fail>,
  pub counters: BTreeMap<String, u64>,
  pub inconclusive: Vec<String>,
  pub case_idx: u64,
}

pub fn fp<T: Hash + ?Sized>(t: &T) -> u64 {
  let mut h = std::collections::hash_map::DefaultHasher::new();
  t.hash(&mut h);
  h.finish()
}

impl Local {
  pub fn eval(&mut self) {
    self.evals += 1;
  }
  pub fn evals_add(&mut self, n: u64) {
    self.evals += n;
  }
  /// Record one distinct non-trivial case by its semantic fingerprint.
  pub fn nontrivial<T: Hash + ?Sized>(&mut self, t: &T) {
    self.fps.insert(fp(t));
  }
  pub fn sample(&mut self, v: Value) {
    if self.samples.len() < 3 {
      self.samples.push(v);
    }
  }
  pub fn count(&mut self, key: &str, n: u64) {
    *self.counters.entry(key.to_string()).or_insert(0) += n;
  }
  pub fn fail(&mut self, signature: impl Into<String>, what: impl Into<String>, case: Value) {
    let signature = signature.into();
    // keep the first witness per signature per worker; count the rest
    self.count(&format!("fail[{}]", signature), 1);
    if self.fails.iter().any(|f| f.signature == signature) {
      return;
    }
    self.fails.push(Fail {
      signature,
      what: what.into(),
      case,
      case_idx: self.case_idx,
    });
  }
  pub fn inconclusive(&mut self, what: impl Into<String>) {
    self.count("inconclusive", 1);
    if self.inconclusive.len() < 10 {
      self.inconclusive.push(what.into());
    }
  }
  pub fn merge(&mut self, o: Local) {
    self.evals += o.evals;
    self.fps.extend(o.fps);
    for s in o.samples {
      if self.samples.len() < 6 {
        self.samples.push(s);
      }
    }
    for f in o.fails {
      match self.fails.iter_mut().find(|g| g.signature == f.signature) {
        Some(g) => {
          if f.case_idx < g.case_idx {
            *g = f;
          }
        }
        None => self.fails.push(f),
      }
    }
    for (k, v) in o.counters {
      *self.counters.entry(k).or_insert(0) += v;
    }
    for s in o.inconclusive {
      if self.inconclusive.len() < 10 {
        self.inconclusive.push(s);
      }
    }
  }
}

pub struct Ctx {
  pub prop: String,
  pub level: String,
  pub tier: Tier,
  pub seed: u64,
  pub l: Local,
  pub start: Instant,
  pub scratch: PathBuf,
  pub rule: String,
  pub assumptions: Vec<String>,
  pub explanation: Option<String>,
  pub exhaustive: bool,
  pub budget_s: f64,
  pub only_case: Option<u64>,
  pub replay: Option<PathBuf>,
  pub extra: Map<String, Value>,
  pub root: PathBuf,
  pub threads: usize,
}

thread_local! {
  static LAST_PANIC: RefCell<Option<String>> = const { RefCell::new(None) };
  static QUIET_PANIC: RefCell<bool> = const { RefCell::new(false) };
}

pub fn install_panic_hook() {
  let prev = std::panic::take_hook();
  std::panic::set_hook(Box::new(move |info| {
    let loc = info
      .location()
      .map(|l| format!("{}:{}", l.file(), l.line()))
      .unwrap_or_else(|| "?".into());
    let msg = if let Some(s) = info.payload().downcast_ref::<&str>() {
      s.to_string()
    } else if let Some(s) = info.payload().downcast_ref::<String>() {
      s.clone()
    } else {
      "<non-string panic>".into()
    };
    LAST_PANIC.with(|p| *p.borrow_mut() = Some(format!("{loc}: {msg}")));
    let quiet = QUIET_PANIC.with(|q| *q.borrow());
    if !quiet {
      prev(info);
    }
  }));
}

/// Run `f`, turning a panic into `Err("file:line: message")`.
pub fn catch<T>(f: impl FnOnce() -> T) -> Result<T, String> {
  QUIET_PANIC.with(|q| *q.borrow_mut() = true);
  let r = std::panic::catch_unwind(std::panic::AssertUnwindSafe(f));
  QUIET_PANIC.with(|q| *q.borrow_mut() = false);
  r.map_err(|_| {
    LAST_PANIC
      .with(|p| p.borrow_mut().take())
      .unwrap_or_else(|| "panic (no info)".into())
  })
}

/// `searchlite-core/src/x.rs:12: msg...` -> `x.rs:12` style stable location stem
pub fn panic_site(p: &str) -> String {
  let loc = p.split(": ").next().unwrap_or(p);
  let loc = loc.rsplit("/src/").next().unwrap_or(loc);
  loc.to_string()
}

impl Ctx {
  pub fn from_args(prop: &str, level: &str, args: &[String]) -> Ctx {
    let mut tier = match std::env::var("VERIF_TIER").ok().as_deref() {
      Some("thorough") => Tier::Thorough,
      _ => Tier::Quick,
    };
    let mut seed: u64 = std::env::var("VERIF_SEED")
      .ok()
      .and_then(|s| s.trim().parse::<i64>().ok())
      .map(|v| v as u64)
      .unwrap_or(1);
    let mut only_case = None;
    let mut replay = None;
    let mut i = 0;
    while i < args.len() {
      match args[i].as_str() {
        "quick" => tier = Tier::Quick,
        "thorough" => tier = Tier::Thorough,
        "--tier" => {
          i += 1;
          tier = if args.get(i).map(|s| s.as_str()) == Some("thorough") {
            Tier::Thorough
          } else {
            Tier::Quick
          };
        }
        "--seed" => {
          i += 1;
          seed = args.get(i).and_then(|s| s.parse().ok()).unwrap_or(seed);
        }
        "--case" => {
          i += 1;
          only_case = args.get(i).and_then(|s| s.parse().ok());
        }
        "--replay" => {
          i += 1;
          replay = args.get(i).map(PathBuf::from);
        }
        _ => {}
      }
      i += 1;
    }
    if let Some(p) = replay.as_ref() {
      if let Ok(txt) = std::fs::read_to_string(p) {
        if let Ok(v) = serde_json::from_str::<Value>(&txt) {
          if let Some(s) = v.get("seed").and_then(|s| s.as_u64()) {
            seed = s;
          }
          if let Some(c) = v.get("case_index").and_then(|s| s.as_u64()) {
            only_case = Some(c);
          }
          if v.get("tier").and_then(|s| s.as_str()) == Some("thorough") {
            tier = Tier::Thorough;
          }
        }
      }
    }
    let root = PathBuf::from(std::env::var("VERIF_ROOT").unwrap_or_else(|_| "/verif".into()));
    let scratch_base = std::env::var("VERIF_SCRATCH").unwrap_or_else(|_| "/tmp".into());
    let scratch = PathBuf::from(scratch_base).join(format!("verif-{}-{}", std::process::id(), prop));
    let _ = std::fs::remove_dir_all(&scratch);
    std::fs::create_dir_all(&scratch).expect("create scratch dir");
    let budget_s = std::env::var("VERIF_BUDGET_S")
      .ok()
      .and_then(|s| s.parse().ok())
      .unwrap_or(match tier {
        Tier::Quick => 90.0,
        Tier::Thorough => 1200.0,
      });
    let threads = std::env::var("VERIF_THREADS")
      .ok()
      .and_then(|s| s.parse().ok())
      .unwrap_or_else(|| std::thread::available_parallelism().map(|n| n.get()).unwrap_or(8));
    install_panic_hook();
    Ctx {
      prop: prop.to_string(),
      level: level.to_string(),
      tier,
      seed,
      l: Local::default(),
      start: Instant::now(),
      scratch,
      rule: String::new(),
      assumptions: Vec::new(),
      explanation: None,
      exhaustive: false,
      budget_s,
      only_case,
      replay,
      extra: Map::new(),
      root,
      threads,
    }
  }

  pub fn quick(&self) -> bool {
    self.tier == Tier::Quick
  }
  pub fn n(&self, quick: u64, thorough: u64) -> u64 {
    if self.quick() {
      quick
    } else {
      thorough
    }
  }
  pub fn elapsed(&self) -> f64 {
    self.start.elapsed().as_secs_f64()
  }
  pub fn out_of_time(&self) -> bool {
    self.elapsed() > self.budget_s
  }
  pub fn rng(&self, label: &str, idx: u64) -> Rng {
    Rng::derive(self.seed ^ hash_str(&self.prop), label, idx)
  }
  pub fn set(&mut self, k: &str, v: Value) {
    self.extra.insert(k.to_string(), v);
  }

  /// Run `n` independent cases on worker threads. Each case gets its own PRNG
  /// derived from (seed, property, label, index) so `--case <idx>` replays it alone.
  /// Stops handing out cases when the time budget is used up (recorded in evidence).
  pub fn run_cases<F>(&mut self, label: &str, n: u64, f: F)
  where
    F: Fn(&mut Rng, &mut Local, &PathBuf) + Sync,
  {
    let next = AtomicU64::new(0);
    let merged: Mutex<Local> = Mutex::new(Local::default());
    let threads = if self.only_case.is_some() { 1 } else { self.threads.max(1) };
    let seed = self.seed ^ hash_str(&self.prop);
    let only = self.only_case;
    let start = self.start;
    let budget = self.budget_s;
    let scratch = self.scratch.clone();
    let skipped = AtomicU64::new(0);
    std::thread::scope(|s| {
      for t in 0..threads {
        let next = &next;
        let merged = &merged;
        let f = &f;
        let skipped = &skipped;
        let scratch = scratch.join(format!("w{t}"));
        s.spawn(move || {
          let _ = std::fs::create_dir_all(&scratch);
          let mut local = Local::default();
          loop {
            let i = next.fetch_add(1, Ordering::SeqCst);
            if i >= n {
              break;
            }
            if let Some(o) = only {
              if i != o {
                continue;
              }
            }
            if start.elapsed().as_secs_f64() > budget {
              skipped.fetch_add(1, Ordering::SeqCst);
              continue;
            }
            local.case_idx = i;
            let mut rng = Rng::derive(seed, label, i);
            if let Err(p) = catch(|| f(&mut rng, &mut local, &scratch)) {
              // a panic that escaped the property code's own guards: harness or engine.
              local.fail(
                format!("uncaught-panic:{}", panic_site(&p)),
                format!("panic escaped case {i}: {p}"),
                json!({"case_index": i, "panic": p}),
              );
            }
          }
          let _ = std::fs::remove_dir_all(&scratch);
          merged.lock().unwrap().merge(local);
        });
      }
    });
    let m = merged.into_inner().unwrap();
    self.l.merge(m);
    let sk = skipped.load(Ordering::SeqCst);
    if sk > 0 {
      self.l.count(&format!("cases_not_run_time_budget[{label}]"), sk);
    }
    self.l.count(&format!("cases_planned[{label}]"), n);
  }

  fn known_findings(&self) -> Vec<(String, String)> {
    let mut files = vec![self.root.join("known_findings.json")];
    if let Ok(rd) = std::fs::read_dir(self.root.join("findings.d")) {
      let mut extra: Vec<PathBuf> = rd.flatten().map(|e| e.path()).filter(|p| p.extension().map(|x| x == "json").unwrap_or(false)).collect();
      extra.sort();
      files.extend(extra);
    }
    let mut out = Vec::new();
    for p in files {
      let Ok(txt) = std::fs::read_to_string(&p) else { continue };
      let Ok(v) = serde_json::from_str::<Value>(&txt) else {
        eprintln!("warning: cannot parse {}", p.display());
        continue;
      };
      if let Some(arr) = v.get("findings").and_then(|a| a.as_array()) {
        for f in arr {
          if f.get("status").and_then(|s| s.as_str()) == Some("known")
            && f.get("property").and_then(|s| s.as_str()) == Some(self.prop.as_str())
          {
            if let Some(sig) = f.get("signature").and_then(|s| s.as_str()) {
              let what = f.get("what").and_then(|s| s.as_str()).unwrap_or("").to_string();
              out.push((sig.to_string(), what));
            }
          }
        }
      }
    }
    out
  }

  /// Write evidence, print KNOWN-FINDING / VIOLATION lines, return the exit code.
  pub fn finish(mut self) -> i32 {
    let known = self.known_findings();
    let mut violations = 0;
    let mut known_hits = Vec::new();
    let replays = self.root.join("replays");
    let _ = std::fs::create_dir_all(&replays);
    let tier_s = if self.quick() { "quick" } else { "thorough" };
    let mut fails = std::mem::take(&mut self.l.fails);
    fails.sort_by(|a, b| a.signature.cmp(&b.signature));
    let mut lines = Vec::new();
    for f in fails.iter() {
      let replay = json!({
        "property": self.prop, "seed": self.seed, "tier": tier_s,
        "case_index": f.case_idx, "signature": f.signature, "what": f.what, "case": f.case,
      });
      let is_known = known.iter().find(|(s, _)| *s == f.signature);
      let fname = format!(
        "{}{}-{:016x}.json",
        if is_known.is_some() { "known-" } else { "" },
        self.prop,
        hash_str(&f.signature)
      );
      let path = replays.join(fname);
      let _ = std::fs::write(&path, serde_json::to_string_pretty(&replay).unwrap_or_default());
      if let Some((sig, what)) = is_known {
        let n = self.l.counters.get(&format!("fail[{}]", sig)).copied().unwrap_or(1);
        lines.push(format!(
          "KNOWN-FINDING: property={} signature={} occurrences={} {} (witness: {})",
          self.prop,
          sig,
          n,
          what,
          path.display()
        ));
        known_hits.push(sig.clone());
      } else {
        violations += 1;
        eprintln!("violation signature={} : {}", f.signature, f.what);
        lines.push(format!("VIOLATION property={} replay={}", self.prop, path.display()));
      }
    }
    let distinct = self.l.fps.len() as u64;
    let wall = self.elapsed();
    let mut coverage = Map::new();
    coverage.insert("evaluations".into(), json!(self.l.evals));
    coverage.insert("distinct_nontrivial".into(), json!(distinct));
    coverage.insert("rule".into(), json!(self.rule));
    coverage.insert("samples".into(), json!(self.l.samples));
    coverage.insert("exhaustive".into(), json!(self.exhaustive));
    if let Some(e) = self.explanation.as_ref() {
      coverage.insert("explanation".into(), json!(e));
    }
    let mut counters = Map::new();
    for (k, v) in self.l.counters.iter() {
      counters.insert(k.clone(), json!(v));
    }
    coverage.insert("counters".into(), Value::Object(counters));
    coverage.insert("inconclusive_samples".into(), json!(self.l.inconclusive));
    coverage.insert("known_findings_observed".into(), json!(known_hits));
    for (k, v) in self.extra.iter() {
      coverage.insert(k.clone(), v.clone());
    }
    let ev = json!({
      "property_id": self.prop,
      "tier": tier_s,
      "seed": self.seed,
      "level": self.level,
      "coverage": Value::Object(coverage),
      "assumptions": self.assumptions,
      "wall_s": wall,
      "violations": violations,
    });
    let evdir = self.root.join("evidence");
    let _ = std::fs::create_dir_all(&evdir);
    let evpath = evdir.join(format!("{}.json", self.prop));
    if self.only_case.is_none() {
      if let Err(e) = std::fs::write(&evpath, serde_json::to_string_pretty(&ev).unwrap()) {
        eprintln!("cannot write evidence {}: {e}", evpath.display());
        return 2;
      }
    }
    let _ = std::fs::remove_dir_all(&self.scratch);
    for l in lines {
      println!("{l}");
    }
    let inconc = self.l.counters.get("inconclusive").copied().unwrap_or(0);
    println!(
      "{} {} seed={} evaluations={} distinct_nontrivial={} violations={} known_findings={} inconclusive={} wall_s={:.1}",
      self.prop,
      tier_s,
      self.seed,
      self.l.evals,
      distinct,
      violations,
      known_hits.len(),
      inconc,
      wall
    );
    if violations > 0 {
      return 1;
    }
    if self.only_case.is_none() && (self.l.evals == 0 || distinct < 2) {
      eprintln!("INCONCLUSIVE: the run observed too little to say anything (evaluations={}, distinct={distinct})", self.l.evals);
      return 2;
    }
    0
  }
}
