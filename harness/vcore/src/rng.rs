//! SplitMix64: tiny, deterministic, splittable by hashing labels into the seed.
#[derive(Clone, Debug)]
pub struct Rng(pub u64);

pub fn mix(mut z: u64) -> u64 {
  z = z.wrapping_add(0x9E37_79B9_7F4A_7C15);
  z = (z ^ (z >> 30)).wrapping_mul(0xBF58_476D_1CE4_E5B9);
  z = (z ^ (z >> 27)).wrapping_mul(0x94D0_49BB_1331_11EB);
  z ^ (z >> 31)
}

pub fn hash_str(s: &str) -> u64 {
  let mut h = 0xcbf2_9ce4_8422_2325u64;
  for b in s.bytes() {
    h ^= b as u64;
    h = h.wrapping_mul(0x1000_0000_01b3);
  }
  mix(h)
}

pub fn hash_bytes(s: &[u8]) -> u64 {
  let mut h = 0xcbf2_9ce4_8422_2325u64;
  for b in s {
    h ^= *b as u64;
    h = h.wrapping_mul(0x1000_0000_01b3);
  }
  mix(h)
}

impl Rng {
  pub fn new(seed: u64) -> Self {
    Rng(mix(seed ^ 0x5EED_5EED_5EED_5EED))
  }
  /// Independent stream derived from this seed and a label/index.
  pub fn derive(seed: u64, label: &str, idx: u64) -> Self {
    Rng(mix(mix(seed) ^ hash_str(label) ^ mix(idx.wrapping_mul(0xA24B_AED4_963E_E407))))
  }
  pub fn fork(&mut self) -> Rng {
    Rng(mix(self.next_u64()))
  }
  pub fn next_u64(&mut self) -> u64 {
    self.0 = self.0.wrapping_add(0x9E37_79B9_7F4A_7C15);
    let mut z = self.0;
    z = (z ^ (z >> 30)).wrapping_mul(0xBF58_476D_1CE4_E5B9);
    z = (z ^ (z >> 27)).wrapping_mul(0x94D0_49BB_1331_11EB);
    z ^ (z >> 31)
  }
  /// uniform in [0, n) ; n == 0 -> 0
  pub fn below(&mut self, n: u64) -> u64 {
    if n == 0 {
      return 0;
    }
    self.next_u64() % n
  }
  pub fn usize(&mut self, n: usize) -> usize {
    self.below(n as u64) as usize
  }
  /// inclusive range
  pub fn range(&mut self, lo: i64, hi: i64) -> i64 {
    if hi <= lo {
      return lo;
    }
    lo + self.below((hi - lo + 1) as u64) as i64
  }
  pub fn urange(&mut self, lo: usize, hi: usize) -> usize {
    self.range(lo as i64, hi as i64) as usize
  }
  pub fn f64(&mut self) -> f64 {
    (self.next_u64() >> 11) as f64 / (1u64 << 53) as f64
  }
  pub fn chance(&mut self, p: f64) -> bool {
    self.f64() < p
  }
  pub fn pick<'a, T>(&mut self, xs: &'a [T]) -> &'a T {
    &xs[self.usize(xs.len())]
  }
  pub fn pick_cloned<T: Clone>(&mut self, xs: &[T]) -> T {
    xs[self.usize(xs.len())].clone()
  }
  pub fn shuffle<T>(&mut self, xs: &mut [T]) {
    for i in (1..xs.len()).rev() {
      let j = self.usize(i + 1);
      xs.swap(i, j);
    }
  }
  /// Zipf-ish index in [0,n): small indexes much more likely.
  pub fn zipf(&mut self, n: usize) -> usize {
    if n <= 1 {
      return 0;
    }
    let u = self.f64();
    let x = ((n as f64 + 1.0).powf(u) - 1.0) as usize;
    x.min(n - 1)
  }
  /// pick k distinct indexes out of n
  pub fn subset(&mut self, n: usize, k: usize) -> Vec<usize> {
    let mut v: Vec<usize> = (0..n).collect();
    self.shuffle(&mut v);
    v.truncate(k.min(n));
    v.sort_unstable();
    v
  }
}
