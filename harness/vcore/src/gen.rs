//! Shared generators: schema description, small vocabularies, document builders.
//! Property-specific generators live next to their checks; this is the common base.
use crate::rng::Rng;
use serde_json::{json, Map, Value};

#[derive(Clone, Copy, PartialEq, Eq, Debug, Hash)]
pub enum Kind {
  Text,
  Keyword,
  I64,
  F64,
}

#[derive(Clone, Debug)]
pub struct FieldInfo {
  pub name: String,
  /// dotted path from the document root
  pub path: String,
  pub kind: Kind,
  pub stored: bool,
  pub indexed: bool,
  pub fast: bool,
  pub nullable: bool,
  pub analyzer: String,
  pub search_analyzer: Option<String>,
}

#[derive(Clone, Debug)]
pub struct NestedInfo {
  pub name: String,
  pub path: String,
  pub nullable: bool,
  pub fields: Vec<FieldInfo>,
  pub children: Vec<NestedInfo>,
}

#[derive(Clone, Debug)]
pub struct SchemaInfo {
  pub doc_id_field: String,
  pub analyzers: Value,
  pub fields: Vec<FieldInfo>,
  pub nested: Vec<NestedInfo>,
}

fn field_json(f: &FieldInfo, tagged: bool) -> Value {
  let mut m = Map::new();
  match f.kind {
    Kind::Text => {
      if tagged {
        m.insert("type".into(), json!("text"));
      }
      m.insert("name".into(), json!(f.name));
      m.insert("analyzer".into(), json!(f.analyzer));
      if let Some(s) = f.search_analyzer.as_ref() {
        m.insert("search_analyzer".into(), json!(s));
      }
      m.insert("stored".into(), json!(f.stored));
      m.insert("indexed".into(), json!(f.indexed));
      m.insert("nullable".into(), json!(f.nullable));
    }
    Kind::Keyword => {
      if tagged {
        m.insert("type".into(), json!("keyword"));
      }
      m.insert("name".into(), json!(f.name));
      m.insert("stored".into(), json!(f.stored));
      m.insert("indexed".into(), json!(f.indexed));
      m.insert("fast".into(), json!(f.fast));
      m.insert("nullable".into(), json!(f.nullable));
    }
    Kind::I64 | Kind::F64 => {
      if tagged {
        m.insert("type".into(), json!("numeric"));
      }
      m.insert("name".into(), json!(f.name));
      m.insert("i64".into(), json!(f.kind == Kind::I64));
      m.insert("fast".into(), json!(f.fast));
      m.insert("stored".into(), json!(f.stored));
      m.insert("nullable".into(), json!(f.nullable));
    }
  }
  Value::Object(m)
}

fn nested_json(n: &NestedInfo, tagged: bool) -> Value {
  let mut props: Vec<Value> = n.fields.iter().map(|f| field_json(f, true)).collect();
  for c in n.children.iter() {
    props.push(nested_json(c, true));
  }
  let mut m = Map::new();
  if tagged {
    m.insert("type".into(), json!("object"));
  }
  m.insert("name".into(), json!(n.name));
  m.insert("fields".into(), Value::Array(props));
  m.insert("nullable".into(), json!(n.nullable));
  Value::Object(m)
}

fn parse_field(v: &Value, kind_hint: Option<&str>, prefix: &str) -> Option<FieldInfo> {
  let name = v.get("name")?.as_str()?.to_string();
  let ty = kind_hint.or_else(|| v.get("type").and_then(|t| t.as_str()))?;
  let path = if prefix.is_empty() { name.clone() } else { format!("{prefix}.{name}") };
  let b = |k: &str, d: bool| v.get(k).and_then(|x| x.as_bool()).unwrap_or(d);
  let kind = match ty {
    "text" => Kind::Text,
    "keyword" => Kind::Keyword,
    "numeric" => {
      if b("i64", false) {
        Kind::I64
      } else {
        Kind::F64
      }
    }
    _ => return None,
  };
  Some(FieldInfo {
    name,
    path,
    kind,
    stored: b("stored", false),
    indexed: if matches!(kind, Kind::I64 | Kind::F64) { true } else { b("indexed", false) },
    fast: if kind == Kind::Text { false } else { b("fast", false) },
    nullable: b("nullable", false),
    analyzer: v
      .get("analyzer")
      .or_else(|| v.get("tokenizer"))
      .and_then(|x| x.as_str())
      .unwrap_or("default")
      .to_string(),
    search_analyzer: v
      .get("search_analyzer")
      .or_else(|| v.get("search_tokenizer"))
      .and_then(|x| x.as_str())
      .map(|s| s.to_string()),
  })
}

fn parse_nested(v: &Value, prefix: &str) -> Option<NestedInfo> {
  let name = v.get("name")?.as_str()?.to_string();
  let path = if prefix.is_empty() { name.clone() } else { format!("{prefix}.{name}") };
  let mut fields = Vec::new();
  let mut children = Vec::new();
  for p in v.get("fields").and_then(|f| f.as_array()).cloned().unwrap_or_default() {
    if p.get("type").and_then(|t| t.as_str()) == Some("object") {
      if let Some(c) = parse_nested(&p, &path) {
        children.push(c);
      }
    } else if let Some(f) = parse_field(&p, None, &path) {
      fields.push(f);
    }
  }
  Some(NestedInfo {
    name,
    path,
    nullable: v.get("nullable").and_then(|x| x.as_bool()).unwrap_or(false),
    fields,
    children,
  })
}

impl SchemaInfo {
  pub fn to_json(&self) -> Value {
    let text: Vec<Value> = self.fields.iter().filter(|f| f.kind == Kind::Text).map(|f| field_json(f, false)).collect();
    let kw: Vec<Value> = self.fields.iter().filter(|f| f.kind == Kind::Keyword).map(|f| field_json(f, false)).collect();
    let num: Vec<Value> = self
      .fields
      .iter()
      .filter(|f| matches!(f.kind, Kind::I64 | Kind::F64))
      .map(|f| field_json(f, false))
      .collect();
    let nested: Vec<Value> = self.nested.iter().map(|n| nested_json(n, false)).collect();
    json!({
      "doc_id_field": self.doc_id_field,
      "analyzers": self.analyzers,
      "text_fields": text,
      "keyword_fields": kw,
      "numeric_fields": num,
      "nested_fields": nested,
    })
  }

  pub fn from_json(v: &Value) -> SchemaInfo {
    let arr = |k: &str| v.get(k).and_then(|a| a.as_array()).cloned().unwrap_or_default();
    let mut fields = Vec::new();
    for f in arr("text_fields") {
      if let Some(fi) = parse_field(&f, Some("text"), "") {
        fields.push(fi);
      }
    }
    for f in arr("keyword_fields") {
      if let Some(fi) = parse_field(&f, Some("keyword"), "") {
        fields.push(fi);
      }
    }
    for f in arr("numeric_fields") {
      if let Some(fi) = parse_field(&f, Some("numeric"), "") {
        fields.push(fi);
      }
    }
    let nested = arr("nested_fields").iter().filter_map(|n| parse_nested(n, "")).collect();
    SchemaInfo {
      doc_id_field: v.get("doc_id_field").and_then(|s| s.as_str()).unwrap_or("_id").to_string(),
      analyzers: v.get("analyzers").cloned().unwrap_or(json!([])),
      fields,
      nested,
    }
  }

  pub fn field(&self, path: &str) -> Option<&FieldInfo> {
    fn walk<'a>(n: &'a NestedInfo, path: &str) -> Option<&'a FieldInfo> {
      n.fields.iter().find(|f| f.path == path).or_else(|| n.children.iter().find_map(|c| walk(c, path)))
    }
    self
      .fields
      .iter()
      .find(|f| f.path == path)
      .or_else(|| self.nested.iter().find_map(|n| walk(n, path)))
  }

  /// every leaf field, top-level and nested
  pub fn all_fields(&self) -> Vec<&FieldInfo> {
    fn walk<'a>(n: &'a NestedInfo, out: &mut Vec<&'a FieldInfo>) {
      out.extend(n.fields.iter());
      for c in n.children.iter() {
        walk(c, out);
      }
    }
    let mut out: Vec<&FieldInfo> = self.fields.iter().collect();
    for n in self.nested.iter() {
      walk(n, &mut out);
    }
    out
  }
}

/// Small closed vocabulary: plain words, inflections (stemmer), stop-words, synonym
/// sources, mixed case and non-ASCII. Deliberately tiny so that ties and repeats abound.
pub const WORDS: &[&str] = &[
  "rust", "search", "engine", "index", "query", "fast", "segment", "commit", "reader", "writer", "token",
  "filter", "score", "rank", "merge", "log", "tree", "block", "page", "cursor", "apple", "banana", "cherry",
  "delta", "echo", "fox", "golf", "hotel", "india", "juliet",
];
pub const INFLECTED: &[&str] = &["running", "runs", "searches", "searching", "indexed", "indexes", "engines", "foxes", "ranked", "merging"];
pub const STOPWORDS: &[&str] = &["the", "a", "of", "and", "is", "to", "in"];
pub const UNICODE_WORDS: &[&str] = &["café", "naïve", "über", "日本語", "東京", "Ünïcode", "straße", "😀", "résumé", "ＦＵＬＬ"];
pub const MIXED_CASE: &[&str] = &["Rust", "SEARCH", "EnGiNe", "Apple", "FOX"];

pub fn word(rng: &mut Rng) -> String {
  let r = rng.below(100);
  if r < 70 {
    WORDS[rng.zipf(WORDS.len())].to_string()
  } else if r < 78 {
    rng.pick(INFLECTED).to_string()
  } else if r < 86 {
    rng.pick(STOPWORDS).to_string()
  } else if r < 93 {
    rng.pick(MIXED_CASE).to_string()
  } else {
    rng.pick(UNICODE_WORDS).to_string()
  }
}

pub fn ascii_word(rng: &mut Rng) -> String {
  WORDS[rng.zipf(WORDS.len())].to_string()
}

pub fn sentence(rng: &mut Rng, min: usize, max: usize) -> String {
  let n = rng.urange(min, max);
  let mut v = Vec::with_capacity(n);
  for _ in 0..n {
    v.push(word(rng));
  }
  let seps = [" ", " ", " ", ", ", ". ", "-", "  "];
  let mut s = String::new();
  for (i, w) in v.iter().enumerate() {
    if i > 0 {
      let sep: &str = seps[rng.usize(seps.len())];
      s.push_str(sep);
    }
    s.push_str(w);
  }
  s
}

pub const TAGS: &[&str] = &["red", "green", "blue", "Red", "GREEN", "cyan", "x", "yz", "alpha-1", "été"];

/// Random commit layout: how many documents go into each successive commit.
pub fn layout(rng: &mut Rng, n_docs: usize, max_commits: usize) -> Vec<usize> {
  let commits = rng.urange(1, max_commits.max(1));
  if commits <= 1 || n_docs == 0 {
    return vec![n_docs];
  }
  let mut cuts: Vec<usize> = (0..commits - 1).map(|_| rng.usize(n_docs + 1)).collect();
  cuts.sort_unstable();
  let mut out = Vec::new();
  let mut prev = 0;
  for c in cuts {
    out.push(c - prev);
    prev = c;
  }
  out.push(n_docs - prev);
  out.retain(|n| *n > 0);
  if out.is_empty() {
    out.push(n_docs);
  }
  out
}

/// A simple, fully stored flat schema used by the write-path properties.
pub fn simple_schema() -> SchemaInfo {
  let f = |name: &str, kind: Kind, stored: bool, fast: bool, nullable: bool| FieldInfo {
    name: name.into(),
    path: name.into(),
    kind,
    stored,
    indexed: true,
    fast,
    nullable,
    analyzer: "default".into(),
    search_analyzer: None,
  };
  SchemaInfo {
    doc_id_field: "_id".into(),
    analyzers: json!([]),
    fields: vec![
      f("body", Kind::Text, true, false, false),
      f("title", Kind::Text, true, false, true),
      f("tag", Kind::Keyword, true, true, true),
      f("n", Kind::I64, true, true, true),
      f("x", Kind::F64, true, true, true),
    ],
    nested: vec![NestedInfo {
      name: "c".into(),
      path: "c".into(),
      nullable: true,
      fields: vec![
        FieldInfo {
          name: "who".into(),
          path: "c.who".into(),
          kind: Kind::Keyword,
          stored: true,
          indexed: true,
          fast: true,
          nullable: true,
          analyzer: "default".into(),
          search_analyzer: None,
        },
        FieldInfo {
          name: "k".into(),
          path: "c.k".into(),
          kind: Kind::I64,
          stored: true,
          indexed: true,
          fast: true,
          nullable: true,
          analyzer: "default".into(),
          search_analyzer: None,
        },
      ],
      children: vec![],
    }],
  }
}

/// Document for `simple_schema` with a unique `version` marker in the body.
pub fn simple_doc(rng: &mut Rng, id: &str, version: &str) -> Value {
  let mut m = Map::new();
  m.insert("_id".into(), json!(id));
  m.insert("body".into(), json!(format!("{} {}", version, sentence(rng, 1, 6))));
  match rng.below(4) {
    0 => {}
    1 => {
      m.insert("title".into(), Value::Null);
    }
    2 => {
      m.insert("title".into(), json!(sentence(rng, 1, 3)));
    }
    _ => {
      m.insert("title".into(), json!([sentence(rng, 1, 2), sentence(rng, 1, 2)]));
    }
  }
  match rng.below(4) {
    0 => {}
    1 => {
      m.insert("tag".into(), json!(rng.pick(TAGS)));
    }
    2 => {
      m.insert("tag".into(), json!([rng.pick(TAGS), rng.pick(TAGS)]));
    }
    _ => {
      m.insert("tag".into(), json!([]));
    }
  }
  if rng.chance(0.7) {
    m.insert("n".into(), json!(rng.range(-5, 20)));
  }
  if rng.chance(0.5) {
    let x = (rng.range(-400, 400) as f64) / 8.0;
    m.insert("x".into(), if rng.chance(0.3) { json!([x, x + 1.0]) } else { json!(x) });
  }
  if rng.chance(0.4) {
    let n = rng.urange(0, 3);
    let objs: Vec<Value> = (0..n)
      .map(|_| {
        let mut o = Map::new();
        if rng.chance(0.8) {
          o.insert("who".into(), json!(rng.pick(TAGS)));
        }
        if rng.chance(0.8) {
          o.insert("k".into(), json!(rng.range(0, 9)));
        }
        Value::Object(o)
      })
      .collect();
    if n == 1 && rng.chance(0.5) {
      m.insert("c".into(), objs[0].clone());
    } else {
      m.insert("c".into(), Value::Array(objs));
    }
  }
  Value::Object(m)
}
