//! Shared machinery for the searchlite runtime-monitoring harness.
pub mod ctx;
pub mod gen;
pub mod idx;
pub mod model;
pub mod rng;
pub mod sandbox;

pub use ctx::{Ctx, Fail, Local, Tier};
pub use rng::Rng;
pub use serde_json::{json, Value};
