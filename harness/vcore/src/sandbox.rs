//! Subprocess sandbox: run a command with an address-space limit and a wall-clock
//! watchdog; report how it ended (exit code / signal / timeout) without ever turning
//! a timeout or OOM into a verdict.
use std::io::{Read, Write};
use std::os::unix::process::{CommandExt, ExitStatusExt};
use std::process::{Child, Command, Stdio};
use std::time::{Duration, Instant};

#[derive(Debug, Clone)]
pub struct Outcome {
  pub code: Option<i32>,
  pub signal: Option<i32>,
  pub timed_out: bool,
  pub stdout: Vec<u8>,
  pub stderr: Vec<u8>,
  pub wall_s: f64,
}

impl Outcome {
  pub fn ok(&self) -> bool {
    self.code == Some(0) && !self.timed_out
  }
  pub fn stdout_str(&self) -> String {
    String::from_utf8_lossy(&self.stdout).to_string()
  }
  pub fn stderr_str(&self) -> String {
    String::from_utf8_lossy(&self.stderr).to_string()
  }
}

pub fn limit_memory(cmd: &mut Command, bytes: u64) {
  unsafe {
    cmd.pre_exec(move || {
      let lim = libc::rlimit { rlim_cur: bytes, rlim_max: bytes };
      libc::setrlimit(libc::RLIMIT_AS, &lim);
      let core = libc::rlimit { rlim_cur: 0, rlim_max: 0 };
      libc::setrlimit(libc::RLIMIT_CORE, &core);
      Ok(())
    });
  }
}

pub fn no_core(cmd: &mut Command) {
  unsafe {
    cmd.pre_exec(move || {
      let core = libc::rlimit { rlim_cur: 0, rlim_max: 0 };
      libc::setrlimit(libc::RLIMIT_CORE, &core);
      Ok(())
    });
  }
}

/// Run to completion (or kill at `timeout`), feeding `stdin` and collecting output.
pub fn run(mut cmd: Command, stdin: Option<&[u8]>, timeout: Duration) -> std::io::Result<Outcome> {
  cmd.stdin(if stdin.is_some() { Stdio::piped() } else { Stdio::null() });
  cmd.stdout(Stdio::piped());
  cmd.stderr(Stdio::piped());
  let start = Instant::now();
  let mut child = cmd.spawn()?;
  if let Some(data) = stdin {
    if let Some(mut si) = child.stdin.take() {
      let data = data.to_vec();
      std::thread::spawn(move || {
        let _ = si.write_all(&data);
      });
    }
  }
  let mut so = child.stdout.take().unwrap();
  let mut se = child.stderr.take().unwrap();
  let t_out = std::thread::spawn(move || {
    let mut b = Vec::new();
    let _ = so.read_to_end(&mut b);
    b
  });
  let t_err = std::thread::spawn(move || {
    let mut b = Vec::new();
    let _ = se.read_to_end(&mut b);
    b
  });
  let (status, timed_out) = wait_timeout(&mut child, timeout)?;
  let stdout = t_out.join().unwrap_or_default();
  let stderr = t_err.join().unwrap_or_default();
  Ok(Outcome {
    code: status.and_then(|s| s.code()),
    signal: status.and_then(|s| s.signal()),
    timed_out,
    stdout,
    stderr,
    wall_s: start.elapsed().as_secs_f64(),
  })
}

pub fn wait_timeout(child: &mut Child, timeout: Duration) -> std::io::Result<(Option<std::process::ExitStatus>, bool)> {
  let start = Instant::now();
  let mut sleep = Duration::from_micros(200);
  loop {
    if let Some(st) = child.try_wait()? {
      return Ok((Some(st), false));
    }
    if start.elapsed() > timeout {
      let _ = child.kill();
      let st = child.wait().ok();
      return Ok((st, true));
    }
    std::thread::sleep(sleep);
    if sleep < Duration::from_millis(20) {
      sleep *= 2;
    }
  }
}

/// Path of the currently running executable (workers re-invoke it).
pub fn self_exe() -> std::path::PathBuf {
  std::env::current_exe().expect("current_exe")
}
