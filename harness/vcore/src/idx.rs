//! Thin helpers around the public searchlite-core API (no engine internals).
use anyhow::{anyhow, Result};
use searchlite_core::api::types::{Document, IndexOptions, SearchRequest, StorageType};
use searchlite_core::api::{Index, IndexReader, SearchResult};
use searchlite_core::Schema;
use serde_json::{json, Value};
use std::collections::BTreeMap;
use std::path::Path;

/// k1/b hard-coded by every front end (CLI, HTTP, FFI).
pub const FRONTEND_K1: f32 = 0.9;
pub const FRONTEND_B: f32 = 0.4;

pub fn opts(path: &Path, in_memory: bool) -> IndexOptions {
  opts_full(path, in_memory, true, FRONTEND_K1, FRONTEND_B)
}

pub fn opts_full(path: &Path, in_memory: bool, positions: bool, k1: f32, b: f32) -> IndexOptions {
  IndexOptions {
    path: path.to_path_buf(),
    create_if_missing: false,
    enable_positions: positions,
    bm25_k1: k1,
    bm25_b: b,
    storage: if in_memory {
      StorageType::InMemory
    } else {
      StorageType::Filesystem
    },
    #[cfg(feature = "vectors")]
    vector_defaults: None,
  }
}

pub fn schema(v: &Value) -> Result<Schema> {
  let mut v = v.clone();
  // `vector_fields` has no serde default when the vectors feature is on.
  if cfg!(feature = "vectors") {
    if let Some(o) = v.as_object_mut() {
      o.entry("vector_fields").or_insert(json!([]));
    }
  }
  serde_json::from_value(v).map_err(|e| anyhow!("schema json: {e}"))
}

pub fn doc(v: &Value) -> Document {
  let fields: BTreeMap<String, Value> = v
    .as_object()
    .map(|m| m.iter().map(|(k, v)| (k.clone(), v.clone())).collect())
    .unwrap_or_default();
  Document { fields }
}

/// Build a `SearchRequest` from JSON, filling the two keys that have no serde default.
pub fn req(mut v: Value) -> Result<SearchRequest> {
  if let Some(o) = v.as_object_mut() {
    o.entry("limit").or_insert(json!(10));
    o.entry("return_stored").or_insert(json!(false));
    o.entry("query").or_insert(json!({"type":"match_all"}));
  }
  serde_json::from_value(v).map_err(|e| anyhow!("request json: {e}"))
}

pub fn search(reader: &IndexReader, v: Value) -> Result<SearchResult> {
  let r = req(v)?;
  reader.search(&r)
}

pub fn ids(res: &SearchResult) -> Vec<String> {
  res.hits.iter().map(|h| h.doc_id.clone()).collect()
}

pub const BIG_LIMIT: usize = 10_000;

/// All live documents with their stored fields: `(doc_id, fields)` in hit order.
pub fn all_docs(reader: &IndexReader) -> Result<Vec<(String, Value)>> {
  let res = search(
    reader,
    json!({"query":{"type":"match_all"},"limit":BIG_LIMIT,"return_stored":true,"execution":"bm25"}),
  )?;
  Ok(
    res
      .hits
      .into_iter()
      .map(|h| (h.doc_id, h.fields.unwrap_or(Value::Null)))
      .collect(),
  )
}

/// Create an index, add `docs` split into commits as given by `layout`
/// (each entry = number of documents in that commit; remaining docs go in a last commit).
pub fn build(path: &Path, in_memory: bool, schema_json: &Value, docs: &[Value], layout: &[usize]) -> Result<Index> {
  let sch = schema(schema_json)?;
  let index = Index::create(path, sch, opts(path, in_memory))?;
  add_in_commits(&index, docs, layout)?;
  Ok(index)
}

pub fn add_in_commits(index: &Index, docs: &[Value], layout: &[usize]) -> Result<()> {
  let mut it = docs.iter();
  let mut w = index.writer()?;
  for n in layout {
    let mut any = false;
    for _ in 0..*n {
      if let Some(d) = it.next() {
        w.add_document(&doc(d))?;
        any = true;
      }
    }
    if any {
      w.commit()?;
    }
  }
  let mut any = false;
  for d in it {
    w.add_document(&doc(d))?;
    any = true;
  }
  if any {
    w.commit()?;
  }
  Ok(())
}
