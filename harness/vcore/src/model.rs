//! Reference models that are independent of the engine: stored projection,
//! value normalisation, and the sequential content/queue model (C04 et al.).
use crate::gen::{FieldInfo, NestedInfo, SchemaInfo};
use serde_json::{json, Map, Value};
use std::collections::BTreeMap;

/// Normalise a stored-fields value modulo representation trivia the API does not
/// promise: `null`, `[]`, `{}` and absent are equal; a one-element array equals its
/// element; numbers compare numerically.
pub fn norm(v: &Value) -> Value {
  match v {
    Value::Null => Value::Null,
    Value::Bool(_) | Value::String(_) => v.clone(),
    Value::Number(n) => match n.as_f64() {
      Some(f) => json!(f),
      None => v.clone(),
    },
    Value::Array(a) => {
      let mut out: Vec<Value> = a.iter().map(norm).filter(|x| !x.is_null()).collect();
      match out.len() {
        0 => Value::Null,
        1 => out.pop().unwrap(),
        _ => Value::Array(out),
      }
    }
    Value::Object(m) => {
      let mut out = Map::new();
      for (k, x) in m.iter() {
        let n = norm(x);
        if !n.is_null() {
          out.insert(k.clone(), n);
        }
      }
      if out.is_empty() {
        Value::Null
      } else {
        Value::Object(out)
      }
    }
  }
}

fn project_nested(n: &NestedInfo, v: &Value) -> Value {
  match v {
    Value::Array(a) => Value::Array(a.iter().map(|x| project_nested(n, x)).collect()),
    Value::Object(m) => {
      let mut out = Map::new();
      for f in n.fields.iter() {
        if f.stored {
          if let Some(x) = m.get(&f.name) {
            out.insert(f.name.clone(), x.clone());
          }
        }
      }
      for c in n.children.iter() {
        if let Some(x) = m.get(&c.name) {
          out.insert(c.name.clone(), project_nested(c, x));
        }
      }
      Value::Object(out)
    }
    _ => Value::Null,
  }
}

/// Expected stored projection (already normalised) of a schema-valid document.
pub fn project(schema: &SchemaInfo, doc: &Value) -> Value {
  let mut out = Map::new();
  let Some(m) = doc.as_object() else {
    return Value::Null;
  };
  if let Some(id) = m.get(&schema.doc_id_field) {
    out.insert(schema.doc_id_field.clone(), id.clone());
  }
  for f in schema.fields.iter() {
    let f: &FieldInfo = f;
    if !f.stored {
      continue;
    }
    if let Some(x) = m.get(&f.name) {
      out.insert(f.name.clone(), x.clone());
    }
  }
  for n in schema.nested.iter() {
    if let Some(x) = m.get(&n.name) {
      out.insert(n.name.clone(), project_nested(n, x));
    }
  }
  norm(&Value::Object(out))
}

#[derive(Clone, Debug, PartialEq)]
pub enum Op {
  Add { id: String, doc: Value },
  Delete { id: String },
}

impl Op {
  pub fn to_json(&self) -> Value {
    match self {
      Op::Add { id, doc } => json!({"add": id, "doc": doc}),
      Op::Delete { id } => json!({"delete": id}),
    }
  }
}

/// Committed contents: id -> original document of the last committed add.
pub type Contents = BTreeMap<String, Value>;

pub fn apply(c: &mut Contents, ops: &[Op]) {
  for op in ops {
    match op {
      Op::Add { id, doc } => {
        c.insert(id.clone(), doc.clone());
      }
      Op::Delete { id } => {
        c.remove(id);
      }
    }
  }
}

/// Sequential model of one index with several writer handles (DESIGN §C04).
#[derive(Clone, Debug, Default, PartialEq)]
pub struct Model {
  pub committed: Contents,
  /// the shared uncommitted log
  pub log: Vec<Op>,
}

#[derive(Clone, Debug, Default, PartialEq)]
pub struct Handle {
  pub queue: Vec<Op>,
}

impl Model {
  pub fn open_handle(&self) -> Handle {
    Handle { queue: self.log.clone() }
  }
  pub fn add(&mut self, h: &mut Handle, id: &str, doc: &Value) {
    let op = Op::Add { id: id.to_string(), doc: doc.clone() };
    self.log.push(op.clone());
    h.queue.push(op);
  }
  pub fn delete(&mut self, h: &mut Handle, id: &str) {
    let op = Op::Delete { id: id.to_string() };
    self.log.push(op.clone());
    h.queue.push(op);
  }
  pub fn commit(&mut self, h: &mut Handle) {
    if h.queue.is_empty() {
      return;
    }
    apply(&mut self.committed, &h.queue);
    self.log.clear();
    h.queue.clear();
  }
  pub fn rollback(&mut self, h: &mut Handle) {
    h.queue.clear();
    self.log.clear();
  }
}

/// Expected `(id -> normalised stored projection)` for the committed contents.
pub fn expected_view(schema: &SchemaInfo, c: &Contents) -> BTreeMap<String, Value> {
  c.iter().map(|(k, v)| (k.clone(), project(schema, v))).collect()
}

/// Turn `all_docs` output into `(id -> normalised stored fields)`; duplicates are reported.
pub fn observed_view(hits: &[(String, Value)]) -> (BTreeMap<String, Value>, Vec<String>) {
  let mut m = BTreeMap::new();
  let mut dups = Vec::new();
  for (id, f) in hits {
    if m.insert(id.clone(), norm(f)).is_some() {
      dups.push(id.clone());
    }
  }
  (m, dups)
}

/// Human-readable difference between expected and observed views (None = equal).
pub fn diff_views(exp: &BTreeMap<String, Value>, obs: &BTreeMap<String, Value>) -> Option<Value> {
  let mut missing = Vec::new();
  let mut extra = Vec::new();
  let mut changed = Vec::new();
  for (k, v) in exp {
    match obs.get(k) {
      None => missing.push(k.clone()),
      Some(o) if o != v => changed.push(json!({"id": k, "expected": v, "observed": o})),
      _ => {}
    }
  }
  for k in obs.keys() {
    if !exp.contains_key(k) {
      extra.push(k.clone());
    }
  }
  if missing.is_empty() && extra.is_empty() && changed.is_empty() {
    None
  } else {
    Some(json!({"missing": missing, "extra": extra, "changed": changed}))
  }
}
