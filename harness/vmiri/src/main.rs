//! C26 Miri lane. Run with `cargo +nightly miri run -p vmiri -- <dir> <seed> <mode>`.
//! Every output buffer and every aggregation buffer is an exact-size heap allocation, so the
//! interpreter reports ANY access outside [buf, buf+cap) (also non-adjacent ones that a guard
//! page cannot see), reads of uninitialised memory, invalid pointer use and leaks of the handle.
//! The program itself checks the functional part of the contract (prefix, NUL, return value,
//! untouched tail) and exits 3 with a `CONTRACT` line when it is broken.
use searchlite_core::api::types::{Document, IndexOptions, Schema, StorageType};
use searchlite_core::api::Index;
use searchlite_ffi::*;
use serde_json::json;
use std::collections::BTreeMap;
use std::ffi::CString;
use std::os::raw::c_char;
use std::path::Path;

struct Rng(u64);
impl Rng {
  fn next(&mut self) -> u64 {
    self.0 = self.0.wrapping_add(0x9E3779B97F4A7C15);
    let mut z = self.0;
    z = (z ^ (z >> 30)).wrapping_mul(0xBF58476D1CE4E5B9);
    z = (z ^ (z >> 27)).wrapping_mul(0x94D049BB133111EB);
    z ^ (z >> 31)
  }
  fn below(&mut self, n: u64) -> u64 {
    self.next() % n.max(1)
  }
}

fn fail(msg: String) -> ! {
  println!("CONTRACT {msg}");
  std::process::exit(3);
}

fn build(dir: &Path, rng: &mut Rng) {
  let _ = std::fs::remove_dir_all(dir);
  std::fs::create_dir_all(dir).unwrap();
  let schema: Schema = serde_json::from_value(json!({
    "doc_id_field": "_id",
    "text_fields": [{"name": "body", "analyzer": "default", "stored": true, "indexed": true}],
    "keyword_fields": [{"name": "tag", "stored": true, "indexed": true, "fast": true, "nullable": true}],
    "numeric_fields": [{"name": "n", "i64": true, "fast": true, "stored": true, "nullable": true}]
  }))
  .unwrap();
  let opts = IndexOptions {
    path: dir.to_path_buf(),
    create_if_missing: false,
    enable_positions: true,
    bm25_k1: 0.9,
    bm25_b: 0.4,
    storage: StorageType::Filesystem,
  };
  let index = Index::create(dir, schema, opts).unwrap();
  let mut w = index.writer().unwrap();
  let words = ["engine", "search", "fast", "日本語", "café", "😀"];
  for i in 0..3 {
    let body = format!("rust {} {}", words[rng.below(6) as usize], words[rng.below(6) as usize]);
    let v = json!({"_id": format!("d{i}"), "body": body, "tag": (["a", "b"][rng.below(2) as usize]), "n": rng.below(20)});
    let fields: BTreeMap<String, serde_json::Value> = v.as_object().unwrap().iter().map(|(k, v)| (k.clone(), v.clone())).collect();
    w.add_document(&Document { fields }).unwrap();
  }
  w.commit().unwrap();
}

struct Tuple {
  query: String,
  limit: usize,
  cursor: Option<String>,
  aggs: Option<String>,
  aggs_short: usize,
}

/// One call with exact-size allocations for every pointer argument.
unsafe fn call(h: *mut IndexHandle, t: &Tuple, out: *mut c_char, cap: usize) -> usize {
  let q = CString::new(t.query.clone()).unwrap();
  let c = t.cursor.as_ref().map(|c| CString::new(c.clone()).unwrap());
  // aggregation bytes WITHOUT a trailing NUL in an allocation of exactly aggs_len bytes
  let agg_box: Option<Box<[u8]>> = t.aggs.as_ref().map(|a| {
    let b = a.as_bytes();
    b[..b.len() - t.aggs_short.min(b.len())].to_vec().into_boxed_slice()
  });
  let (ap, al) = match &agg_box {
    Some(b) if !b.is_empty() => (b.as_ptr() as *const c_char, b.len()),
    _ => (std::ptr::null(), 0),
  };
  searchlite_search(h, q.as_ptr(), t.limit, c.as_ref().map(|c| c.as_ptr()).unwrap_or(std::ptr::null()), ap, al, out, cap)
}

fn main() {
  let args: Vec<String> = std::env::args().skip(1).collect();
  let dir = std::path::PathBuf::from(args.first().expect("dir"));
  let seed: u64 = args.get(1).and_then(|s| s.parse().ok()).unwrap_or(1);
  let mode = args.get(2).cloned().unwrap_or_else(|| "small".into());
  if mode == "warm" {
    return;
  }
  let mut rng = Rng(seed ^ 0xC26);
  build(&dir, &mut rng);
  let path = CString::new(dir.to_string_lossy().to_string()).unwrap();
  let mut calls = 0u64;
  let mut caps_seen = 0u64;
  let mut truncating = 0u64;
  let mut null_cases = 0u64;
  unsafe {
    // null / invalid arguments
    if !searchlite_index_open(std::ptr::null(), false).is_null() {
      fail("index_open(NULL) returned a handle".into());
    }
    searchlite_index_close(std::ptr::null_mut());
    if searchlite_add_json(std::ptr::null_mut(), std::ptr::null(), 0) >= 0 || searchlite_commit(std::ptr::null_mut()) >= 0 {
      fail("add_json/commit on NULL handle reported success".into());
    }
    null_cases += 4;
    let h = searchlite_index_open(path.as_ptr(), false);
    if h.is_null() {
      fail("index_open failed".into());
    }
    // one document through the C entry point (second segment)
    let d = CString::new(json!({"_id": "f1", "body": "rust ffi café", "tag": "a", "n": 3}).to_string()).unwrap();
    if searchlite_add_json(h, d.as_ptr(), 0) < 0 || searchlite_commit(h) < 0 {
      fail("add_json/commit failed".into());
    }
    if searchlite_add_json(h, std::ptr::null(), 0) >= 0 {
      fail("add_json(NULL json) reported success".into());
    }
    null_cases += 1;
    let tuples = vec![
      Tuple { query: "rust".into(), limit: 3, cursor: None, aggs: None, aggs_short: 0 },
      Tuple { query: json!({"type": "match_all"}).to_string(), limit: 2, cursor: None, aggs: Some(json!({"t": {"type": "terms", "field": "tag", "size": 5}}).to_string()), aggs_short: 0 },
      Tuple { query: "café".into(), limit: 5, cursor: Some("zz".repeat(21)), aggs: Some(json!({"s": {"type": "stats", "field": "n"}}).to_string()), aggs_short: 3 },
      Tuple { query: "{not json".into(), limit: 1, cursor: None, aggs: Some("{\"t\": {\"type\": ".into()), aggs_short: 0 },
    ];
    let n_tuples = if mode == "small" { 2 } else { tuples.len() };
    for t in tuples.iter().take(n_tuples) {
      // full response in a generous exact-size buffer
      let big = 16384usize;
      let mut full_buf = vec![0xA5u8; big].into_boxed_slice();
      let full_len = call(h, t, full_buf.as_mut_ptr() as *mut c_char, big);
      calls += 1;
      if full_len >= big {
        fail(format!("return value {full_len} >= capacity {big}"));
      }
      if full_buf[full_len] != 0 && full_len > 0 {
        fail("no NUL after the full response".into());
      }
      let full: Vec<u8> = full_buf[..full_len].to_vec();
      // null / zero-capacity output
      if call(h, t, std::ptr::null_mut(), 64) != 0 || call(std::ptr::null_mut(), t, full_buf.as_mut_ptr() as *mut c_char, big) != 0 {
        fail("NULL out buffer / NULL handle did not return 0".into());
      }
      let mut one = vec![0xA5u8; 1].into_boxed_slice();
      if call(h, t, one.as_mut_ptr() as *mut c_char, 0) != 0 || one[0] != 0xA5 {
        fail("capacity 0 wrote to the buffer or returned non-zero".into());
      }
      null_cases += 3;
      calls += 3;
      if searchlite_search(h, std::ptr::null(), 1, std::ptr::null(), std::ptr::null(), 0, full_buf.as_mut_ptr() as *mut c_char, big) != 0 {
        fail("NULL query did not return 0".into());
      }
      null_cases += 1;
      if full_len == 0 {
        continue;
      }
      let mut caps: Vec<usize> = vec![1, 2, 3, full_len.saturating_sub(2), full_len - 1, full_len, full_len + 1, full_len + 2, full_len + 17];
      let extra = if mode == "small" { 3 } else { 12 };
      for _ in 0..extra {
        caps.push(1 + rng.below(full_len as u64 + 8) as usize);
      }
      caps.sort();
      caps.dedup();
      for cap in caps {
        if cap == 0 {
          continue;
        }
        let mut buf = vec![0xA5u8; cap].into_boxed_slice();
        let n = call(h, t, buf.as_mut_ptr() as *mut c_char, cap);
        calls += 1;
        caps_seen += 1;
        let want = full_len.min(cap - 1);
        if n != want {
          fail(format!("cap {cap}: returned {n}, expected {want} (full {full_len})"));
        }
        if buf[..n] != full[..n] {
          fail(format!("cap {cap}: text before the NUL is not a prefix of the full response"));
        }
        if buf[n] != 0 {
          fail(format!("cap {cap}: no NUL at offset {n}"));
        }
        if buf[n + 1..].iter().any(|b| *b != 0xA5) {
          fail(format!("cap {cap}: bytes after the NUL were modified"));
        }
        if n < full_len {
          truncating += 1;
        }
      }
    }
    searchlite_index_close(h);
  }
  let _ = std::fs::remove_dir_all(&dir);
  println!("MIRI-OBSERVED calls={calls} capacities={caps_seen} truncating={truncating} null_cases={null_cases}");
}
